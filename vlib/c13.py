"""C13 — wrapper mode and git-hooks mode record the same authorship.

Layers
 (1) Coq: Model/Modes.v — both front ends as event translators into the same core
     (wrap_events from git_handlers.rs + hooks/*.rs; git_fires = which hooks git 2.39 fires;
     hook_events following run_managed_hook with the side-state files explicit).  Theorems C13_*.
 (2) system level: one history is generated once (wrapper mode, tracing user hooks installed through
     the product's own forwarding feature = the facts about git's hook firing), then the recorded
     script is replayed into fresh worlds: wrapper, hooks (plain git + `git-ai git-hooks ensure`),
     hooks+trace and, for a sample, both.  ORACLE: notes of every commit reachable from a branch are
     equivalent and `git-ai blame --json` of every file at every branch head is equal.
     CORRESPONDENCE: the new rewrite_log lines of every command, in either mode, against the model's
     prediction for the command class and the facts; the hooks git fired against git_fires.
Known classes = decidable predicates on the command sequence + git-level facts (see KNOWN_DOC).
"""
import json
import os
import re
import shlex
import shutil
import subprocess

from . import common as C
from .gitsim import Sim, parse_note, REALGIT
from .world import World, SEQ_EDITOR, TOOL

GEN_FILES = ["GenModes"]
DRIVERS = ["modes"]
THEOREMS = ["C13_same_events", "C13_same_events_exact", "C13_side_state_cleared", "C13_sequences", "C13_no_double",
            "C13_same_events_unconditional_refuted", "C13_side_state_leak_refuted", "C13_sequences_leak_refuted",
            "C13_known_classes_refuted", "C13_pull_pending_refuted", "C13_pull_noop_autostash", "C13_pull_real_autostash",
            "C13_commit_clears_cherry_pick_state", "C13_commit_attempt_leaves_cherry_pick_state", "C13_abandoned_cherry_pick",
            "C13_nonvacuous"]
CLAIM = {
    "text": "Partial proof. Both front ends are modelled as translators of one command execution into the events that reach "
            "the shared core (Model/Modes.v: wrap_events from git_handlers.rs + hooks/*.rs; hook_events following "
            "run_managed_hook with the four side-state files explicit; git_fires = the hooks git 2.39 fires, a monitored fact). "
            "Theorems (closed; 23 command classes, facts universally quantified): outside the decidable predicate Known_C13 the "
            "two translations hand the core the same effectful events, also with the commit ids (C13_same_events[_exact]); "
            "unless the decidable predicate leaks holds the side state is back to its initial value after the command "
            "(C13_side_state_cleared), hence equality for whole sequences (C13_sequences); with wrapper and managed hooks both "
            "installed every event is produced once (C13_no_double). The unconditional statement is FALSE on the faithful "
            "model: one machine-checked witness per class K2..K11 (C13_known_classes_refuted), the hook-mask leak K1 "
            "(C13_side_state_leak_refuted) and its consequence for the next commit (C13_sequences_leak_refuted). "
            "System level: every generated history is executed in wrapper mode and in hooks mode (same script, pinned clock, "
            "identical commit ids); notes of every reachable commit and blame of every file at every branch head are compared; "
            "all differences found on the unchanged tree fall into the known classes K1..K11, each reproduced by a template. "
            "The model is tied to the code by the translator (hook name tables, command tables, acted-on events, skip "
            "environment) and by comparing, for every executed command, the new rewrite_log lines of BOTH modes, the hooks git "
            "fired and the mask / pull side-state files with the model's prediction.",
    "design_ref": "DESIGN.md §4 C13",
    "note": "Trusted: Coq kernel, GenModes translator, extraction + d_modes.ml, gitsim/world engine, the tracing user hooks "
            "(installed through the product's own forwarding of user hooks; non-interference is monitored by running every "
            "history with and without them). Environment: git 2.39 itself. The content of the core operations is not "
            "modelled (shared by both modes); equality of events gives equality of results by determinism of the core, "
            "which holds up to the statistics fields of prompt records (measured: not a function of the history even "
            "within one mode).",
    "technique": "Coq proof over event-translator models + translator-regenerated tables + two-mode differential execution",
}
TRUSTED_BASE = [
    "Coq 8.16.1 kernel; theorems closed under the global context",
    "tools/gen/GenModes.py (CORE/MANAGED/REBASE_TERMINAL hook names, arms of run_managed_hook, early returns of "
    "handle_git_hook_invocation, wrapper pre/post command tables, command_uses_managed_hooks, child environment, "
    "rewrite_authorship_if_needed's acted-on variants, rewrite_stash default)",
    "extraction + coq/Extract/d_modes.ml; vlib/gitsim.py, vlib/world.py, vlib/c13.py (engine, tracing hooks, independent "
    "note parser, fact extraction)",
    "modelled not verified: git 2.39 (which hooks fire: monitored on every executed command); the shared core "
    "(post_commit, rewrite_authorship_*, working-log storage): identical in both modes by construction",
]
ASSUMPTIONS = ["git 2.39.x hook firing as recorded by the tracing hooks (git_fires is compared with the trace on every command)",
               "commands are issued one at a time (no concurrent git processes: C11)",
               "the repository's local core.hooksPath points at the managed hooks directory (what `git-ai git-hooks ensure` sets up)",
               "feature flag rewrite_stash at its debug-build default (on), as in the test binary"]
BOTH_TEMPLATES = {"commit_amend", "rebase_ok", "cp_single", "reset_soft", "stash_pop", "merge_squash",
                  "checkout_branch_pending", "pull_rebase", "rebase_conflict_continue"}
TRACE_HOOKS = ["pre-commit", "prepare-commit-msg", "commit-msg", "post-commit", "pre-rebase", "post-checkout", "post-merge",
               "post-rewrite", "reference-transaction", "pre-merge-commit", "post-applypatch", "pre-push"]
MANAGED = ["pre-commit", "prepare-commit-msg", "post-commit", "pre-rebase", "post-checkout", "post-merge", "pre-push",
           "post-rewrite", "reference-transaction"]

TRACE_SCRIPT = r'''#!/bin/sh
D="${GIT_DIR:-.git}"
{
  printf 'H %%s' "$(basename "$0")"
  for a in "$@"; do printf ' [%%s]' "$a"; done
  printf ' RA=[%%s] rb=%%s cp=%%s sq=%%s te=%%s\n' "$GIT_REFLOG_ACTION" \
    "$( { [ -d "$D/rebase-merge" ] || [ -d "$D/rebase-apply" ]; } && echo 1 || echo 0)" \
    "$( [ -f "$D/CHERRY_PICK_HEAD" ] && echo 1 || echo 0)" \
    "$( [ -d "$D/sequencer" ] && echo 1 || echo 0)" \
    "$( [ -f "$D/rebase-merge/git-rebase-todo" ] && ! grep -q '[^[:space:]]' "$D/rebase-merge/git-rebase-todo" && echo 1 || echo 0)"
  case "$(basename "$0")" in
    post-rewrite|reference-transaction|pre-push) sed 's/^/I /' ;;
  esac
} >> %s
exit 0
'''


# ---------------------------------------------------------------------------------------------
# engine: a Sim that can run in wrapper / hooks / both mode, with optional tracing user hooks
# ---------------------------------------------------------------------------------------------
class MSim(Sim):
    """mode: wrapper (GIT_AI=git through the binary) | hooks (plain git + managed repository hooks) |
    both (wrapper AND managed hooks).  trace=True installs a user hook directory as the GLOBAL
    core.hooksPath before anything else: in wrapper mode git runs these hooks itself (the native firing),
    in hooks mode git-ai forwards every hook it receives to them (ForwardMode::GlobalFallback)."""

    def __init__(self, base, name, mode="wrapper", trace=False):
        super().__init__(base, name, mode=mode)
        self.trace = trace
        self.tick = True
        self.tracefile = os.path.join(self.base, "trace.log")
        if trace:
            d = os.path.join(self.base, "tracehooks")
            os.makedirs(d, exist_ok=True)
            for h in TRACE_HOOKS:
                p = os.path.join(d, h)
                with open(p, "w") as f:
                    f.write(TRACE_SCRIPT % shlex.quote(self.tracefile))
                os.chmod(p, 0o755)
            with open(os.path.join(self.home, ".gitconfig"), "a") as f:
                f.write("[core]\n\thooksPath = %s\n" % d)
        os.makedirs(os.path.join(self.home, ".git-ai"), exist_ok=True)
        with open(os.path.join(self.home, ".git-ai", "config.json"), "w") as f:
            json.dump(self.config_patch, f)

    def env(self, extra=None):
        e = super().env(extra)
        e.pop("GIT_AI_SKIP_MANAGED_HOOKS_INSTALL", None)
        if self.mode in ("hooks", "both"):
            e["GIT_AI_GLOBAL_GIT_HOOKS"] = "true"
        return e

    def _run(self, argv, cwd=None, env=None, stdin=None, timeout=120):
        res = super()._run(argv, cwd=cwd, env=env, stdin=stdin, timeout=timeout)
        if not self.tick:
            self.clock -= 1          # observation calls do not advance the pinned clock
        return res

    def git(self, *args, cwd=None, env_extra=None, stdin=None):
        if self.mode in ("wrapper", "both"):
            return self._run([self.binary] + list(args), cwd=cwd,
                             env=self.env(dict({"GIT_AI": "git"}, **(env_extra or {}))), stdin=stdin)
        return self._run([REALGIT] + list(args), cwd=cwd, env=self.env(env_extra), stdin=stdin)

    def quiet(self):
        return _Quiet(self)

    def init(self, files=None):
        os.makedirs(self.repo, exist_ok=True)
        self.realgit("init", "-q", ".")
        if self.mode in ("hooks", "both"):
            with self.quiet():
                rc, out, err = self.gitai("git-hooks", "ensure")
            if rc != 0:
                raise RuntimeError("git-hooks ensure failed: " + out + err)
        for p, t in (files or {}).items():
            self.write(p, t)
        if files:
            self.realgit("add", "-A")
            self.git("commit", "-q", "-m", "base")
        return self

    def mark(self, text):
        if self.trace:
            with open(self.tracefile, "a") as f:
                f.write("M " + text + "\n")

    def journal(self):
        """rewrite_log oldest first"""
        p = os.path.join(self.repo, ".git", "ai", "rewrite_log")
        if not os.path.exists(p):
            return []
        out = []
        for l in open(p):
            l = l.strip()
            if l:
                try:
                    out.append(json.loads(l))
                except Exception:
                    out.append({"unparseable": l[:80]})
        return out[::-1]

    def side_files(self):
        d = os.path.join(self.repo, ".git", "ai")
        names = ["rebase_hook_mask_state.json", "stash_ref_tx_state.json", "cherry_pick_batch_state.json",
                 "pull_hook_state.json", "cherry_pick_hook_state"]
        return [n for n in names if os.path.exists(os.path.join(d, n))]

    def masked_hooks(self):
        d = os.path.join(self.repo, ".git", "ai", "hooks")
        return sorted(f for f in os.listdir(d) if f.endswith(".gitai-masked")) if os.path.isdir(d) else []


class _Quiet:
    def __init__(self, sim):
        self.sim = sim

    def __enter__(self):
        self.old = self.sim.tick
        self.sim.tick = False

    def __exit__(self, *a):
        self.sim.tick = self.old


class GWorld(World):
    """World whose recorded primitives are the only calls that advance the clock (so that a replay of
    the script, which consists of exactly these calls, produces identical commit ids), plus the
    command shapes World lacks (path checkout, path reset, stash apply/drop, pull)."""

    def __init__(self, sim, rng):
        super().__init__(sim, rng)
        sim.tick = False
        self.has_remote = False

    def _ticked(self, fn, *a, **k):
        self.sim.tick = True
        try:
            return fn(*a, **k)
        finally:
            self.sim.tick = False

    def git(self, *args, env_extra=None, stdin=None):
        self.sim.mark("git " + " ".join(args))
        return self._ticked(super().git, *args, env_extra=env_extra, stdin=stdin)

    def realgit(self, *args):
        self.sim.mark("realgit " + " ".join(args))
        return self._ticked(super().realgit, *args)

    def cp_h(self, paths):
        return self._ticked(super().cp_h, paths)

    def cp_ai(self, s, paths):
        return self._ticked(super().cp_ai, s, paths)

    def _resolve_conflict(self):
        super()._resolve_conflict()
        # sometimes the user first tries `git commit` and bails out after the pre-commit hook has run (empty message)
        if (self._in_progress("cherry-pick") or self._in_progress("rebase")) and self.r.chance(1, 3):
            rc, _, _ = self.git("commit", "-m", "")
            self.trace.append(("commit_attempt_aborted", rc))

    def worktree_files(self):
        # files under up/ belong to the upstream: local edits there would make every pull conflict
        return [p for p in super().worktree_files() if not p.startswith(("up/", "dup/"))]

    # ---- detached HEAD
    def op_detach(self):
        """git checkout --detach / git checkout <sha>: from here on a move of HEAD updates no refs/heads/..."""
        if self.cur == "HEAD":
            return None
        target = None
        if self.r.chance(1, 3) and self._clean():
            rc, out, _ = self.sim.realgit("rev-parse", "-q", "--verify", "HEAD~1")
            target = out.strip() if rc == 0 else None
        rc, _, _ = self.git(*(["checkout", "-q", target] if target else ["checkout", "-q", "--detach"]))
        if rc == 0:
            self.cur = "HEAD"
        self.trace.append(("detach", "sha" if target else "here", rc))
        return rc

    def keep_detached(self):
        """give the commits of a detached HEAD a branch (plain git) before leaving it, so that they stay observable"""
        if self.cur == "HEAD":
            name = f"keep{len(self.branches)}"
            self.realgit("branch", name, "HEAD")
            self.branches.append(name)

    def op_switch(self):
        self.keep_detached()
        return super().op_switch()

    def op_branch(self):
        return super().op_branch()

    # ---- extra command shapes
    def op_checkout_path(self):
        files = self.tracked()
        if not files:
            return None
        p = self.r.pick(files)
        form = self.r.pick([["checkout", "--", p], ["checkout", "HEAD", "--", p]])
        rc, _, _ = self.git(*form)
        self.trace.append(("checkout_path", p, rc))
        return rc

    def op_reset_path(self):
        files = self.tracked()
        if not files:
            return None
        if self.r.chance(1, 2):
            self.op_edit()
        self.realgit("add", "-A")
        p = self.r.pick(files)
        rc, _, _ = self.git("reset", "-q", "--", p)
        self.trace.append(("reset_path", p, rc))
        return rc

    def op_stash_apply(self):
        if self.stash_depth == 0:
            return None
        if not self._clean():
            self.op_commit()
        rc, _, _ = self.git("stash", "apply")
        self.trace.append(("stash_apply", rc))
        if rc != 0:
            self._resolve_conflict()
        return rc

    def op_stash_drop(self):
        if self.stash_depth == 0:
            return None
        rc, _, _ = self.git("stash", "drop")
        self.stash_depth -= 1
        self.trace.append(("stash_drop", rc))
        return rc

    def setup_remote(self):
        """a sibling clone `../up` is the upstream of main (relative paths only: the script is replayed elsewhere)"""
        self.realgit("-c", "core.hooksPath=/dev/null", "clone", "-q", ".", "../up")
        self.realgit("remote", "add", "origin", "../up")
        self.realgit("-c", "core.hooksPath=/dev/null", "fetch", "-q", "origin")
        self.realgit("branch", "-q", "--set-upstream-to=origin/main", "main")
        self.has_remote = True
        self.up_n = 0

    def upstream_commit(self):
        """a person commits upstream with plain git (own file, so a later pull never conflicts)"""
        self.up_n += 1
        path = f"../up/up/u{self.up_n % 2}.txt"
        old = self.sim.read(path) or ""
        self.write(path, old + self.fresh("H") + "\n")
        self.realgit("-C", "../up", "-c", "core.hooksPath=/dev/null", "add", "-A")
        self.realgit("-C", "../up", "-c", "core.hooksPath=/dev/null", "commit", "-q", "-m", f"up{self.up_n}")

    def upstream_and_local_duplicate(self):
        """the same patch is committed upstream (by a person, plain git) and locally: `pull --rebase` skips the local one"""
        self.up_n += 1
        rel = f"dup/d{self.up_n}.txt"
        text = self.fresh("H") + "\n"
        self.write("../up/" + rel, text)
        self.realgit("-C", "../up", "-c", "core.hooksPath=/dev/null", "add", "-A")
        self.realgit("-C", "../up", "-c", "core.hooksPath=/dev/null", "commit", "-q", "-m", f"updup{self.up_n}")
        self.write(rel, text)
        self.realgit("add", "--", rel)
        rc, _, _ = self.git("commit", "-q", "-m", f"localdup{self.up_n}")
        return rc

    def op_pull_shapes(self):
        """pull --rebase where the local commits are really rebased / all skipped as duplicates / partly skipped,
        with or without pending (autostashed or untracked) agent edits"""
        if not self.has_remote or self.cur != "main":
            return None
        r = self.r
        if not self._clean():
            self.op_commit()
        shape = r.pick(["real", "noop", "partial", "noop", "partial"])
        self.upstream_commit()
        if shape in ("noop", "partial"):
            self.upstream_and_local_duplicate()
        if shape in ("real", "partial"):
            self.op_edit()
            self.op_commit()
        pending = r.pick(["tracked", "tracked", "untracked", "none"])
        args = ["pull", "--rebase", "-q"]
        if pending == "tracked":
            files = [p for p in self.tracked() if not p.startswith(("up/", "dup/"))]
            if files:
                self.op_edit(actor=r.pick(["s1", "s2"]), path=r.pick(files))
                args.append("--autostash")
        elif pending == "untracked":
            self.op_edit(actor=r.pick(["s1", "s2"]), path=f"new{self.counter}.txt")
        rc, _, _ = self.git(*args, env_extra={"GIT_EDITOR": "true"})
        state = self._finish_sequencer("rebase", rc) if rc != 0 else "done"
        self.trace.append(("pull_shape", shape, pending, rc, state))
        return rc

    def op_pull(self, rebase):
        if not self.has_remote or self.cur != "main":
            return None
        self.upstream_commit()
        if rebase:
            if self.r.chance(2, 3):
                self.op_edit()
            if not self._clean():
                self.op_commit()
            rc, _, _ = self.git("pull", "--rebase", "-q", env_extra={"GIT_EDITOR": "true"})
            state = self._finish_sequencer("rebase", rc) if rc != 0 else "done"
            self.trace.append(("pull_rebase", rc, state))
        else:
            # fast-forward only: local main must not be ahead of origin/main
            rc0, out, _ = self.sim.realgit("rev-list", "--count", "origin/main..main")
            if out.strip() != "0":
                return None
            rc, _, _ = self.git("pull", "--ff-only", "-q")
            self.trace.append(("pull_ff", rc))
        return rc


def replay(script, sim, observer=None):
    """re-execute a recorded script (see world.replay) with per-step observation"""
    for k, st in enumerate(script):
        if st[0] == "write":
            sim.write(st[1], st[2])
        elif st[0] == "git":
            sim.mark("git " + " ".join(st[1]))
            before = observer.before(sim, k, st) if observer else None
            res = sim.git(*st[1], env_extra=st[2])
            if observer:
                observer.after(sim, k, st, res, before)
        elif st[0] == "realgit":
            sim.mark("realgit " + " ".join(st[1]))
            sim.realgit(*st[1])
        elif st[0] == "cp_h":
            sim.checkpoint_human(st[1])
        elif st[0] == "cp_ai":
            sim.checkpoint_ai(st[1], st[2], tool=TOOL)


# ---------------------------------------------------------------------------------------------
# observation of a finished world
# ---------------------------------------------------------------------------------------------
VOLATILE_NOTE_KEYS = ("git_ai_version",)


def _q(sim, *args):
    with sim.quiet():
        rc, out, _ = sim.realgit(*args)
    return out if rc == 0 else ""


def snapshot(sim):
    """{branches: {name: [shas oldest first]}, notes: {sha: canonical}, blame: {branch: {path: {line: hash}}},
        trees: {branch: tree}}"""
    snap = {"branches": {}, "notes": {}, "blame": {}, "trees": {}, "raw": {}}
    names = [b for b in _q(sim, "for-each-ref", "--format=%(refname:short)", "refs/heads").split("\n") if b]
    if _rev(sim, "HEAD"):
        names.append("HEAD")          # also what is only reachable from a detached HEAD
    for b in sorted(names):
        shas = [s for s in _q(sim, "rev-list", "--reverse", b).split("\n") if s]
        snap["branches"][b] = shas
        snap["trees"][b] = _q(sim, "rev-parse", b + "^{tree}").strip()
        with sim.quiet():
            bl = {}
            for p in sim.ls_files_at(b):
                x = sim.blame(p, rev=b)
                bl[p] = None if x is None else {str(k): v for k, v in sorted(x.items())}
            snap["blame"][b] = bl
    seen = set()
    for shas in snap["branches"].values():
        for s in shas:
            if s in seen:
                continue
            seen.add(s)
            with sim.quiet():
                raw = sim.note_raw(s)
            snap["raw"][s] = raw
            snap["notes"][s] = canon_note(raw)
    return snap


def canon_note(raw):
    if raw is None:
        return None
    n = parse_note(raw)
    if not n["ok"]:
        return {"unparseable": raw[:200]}
    files = {p: {h: sorted(set(ls)) for h, ls in hs.items()} for p, hs in n["files"].items()}
    prompts = {}
    for h, rec in n["prompts"].items():
        prompts[h] = json.loads(json.dumps(rec, sort_keys=True))
    return {"files": files, "prompts": prompts, "base": n["base"]}


VOLATILE_PROMPT_FIELDS = ("total_additions", "total_deletions", "accepted_lines", "overriden_lines", "human_author")


def note_diff(a, b):
    """-> (kind, text): kind '' when equivalent; 'content' when files / sessions / line sets / prompt identity
    (agent, messages, any other field) differ; 'counters' when ONLY the statistics of a prompt record differ.
    The statistics fields (VOLATILE_PROMPT_FIELDS) are not a function of the history even within ONE mode: the
    same script run twice through the wrapper gives different values after an amend of a rebased commit
    (which of several earlier records of the session is carried over depends on map iteration order) — so they
    are compared, counted and reported, but cannot be demanded equal across modes."""
    if a is None or b is None:
        return ("", "") if a is b else ("content", "note missing in %s" % ("wrapper" if a is None else "hooks"))
    if "unparseable" in a or "unparseable" in b:
        return ("", "") if a == b else ("content", "unparseable note")
    if a["files"] != b["files"]:
        fa, fb = a["files"], b["files"]
        if set(fa) != set(fb):
            return "content", "file sets differ: wrapper %s hooks %s" % (sorted(fa), sorted(fb))
        return "content", "line sets differ: " + "; ".join(f"{p}: wrapper {fa[p]} hooks {fb[p]}" for p in fa if fa[p] != fb[p])[:300]
    if set(a["prompts"]) != set(b["prompts"]):
        return "content", "prompt sets differ: wrapper %s hooks %s" % (sorted(a["prompts"]), sorted(b["prompts"]))
    if a["base"] != b["base"]:
        return "content", "base_commit_sha differs"
    vol = None
    for h in a["prompts"]:
        ra, rb = a["prompts"][h], b["prompts"][h]
        if ra != rb:
            ks = sorted(k for k in set(ra) | set(rb) if ra.get(k) != rb.get(k))
            txt = f"prompt record {h} differs in {ks}: wrapper " + json.dumps({k: ra.get(k) for k in ks})[:120] + \
                  " hooks " + json.dumps({k: rb.get(k) for k in ks})[:120]
            if any(k not in VOLATILE_PROMPT_FIELDS for k in ks):
                return "content", txt
            vol = vol or txt
    return ("counters", vol) if vol else ("", "")


def compare(sw, sh):
    """oracle: list of differences between the wrapper snapshot and the hooks snapshot"""
    diffs = []
    if set(sw["branches"]) != set(sh["branches"]):
        diffs.append({"kind": "git", "what": "branch sets differ"})
        return diffs
    same_ids = sw["branches"] == sh["branches"]
    for b in sw["branches"]:
        cw, ch = sw["branches"][b], sh["branches"][b]
        if len(cw) != len(ch) or sw["trees"][b] != sh["trees"][b]:
            diffs.append({"kind": "git", "what": f"branch {b}: different history or tree (git-level divergence)"})
            continue
        for pos, (a, c) in enumerate(zip(cw, ch)):
            kind, d = note_diff(sw["notes"].get(a), sh["notes"].get(c))
            if kind and not any(x.get("commit") == a for x in diffs):
                diffs.append({"kind": "note" if kind == "content" else "counters", "branch": b, "position": pos,
                              "commit": a, "what": d})
        if sw["blame"][b] != sh["blame"][b]:
            for p in sorted(set(sw["blame"][b]) | set(sh["blame"][b])):
                if sw["blame"][b].get(p) != sh["blame"][b].get(p):
                    diffs.append({"kind": "blame", "branch": b, "path": p, "wrapper": sw["blame"][b].get(p),
                                  "hooks": sh["blame"][b].get(p)})
    if not same_ids:
        diffs.append({"kind": "info", "what": "commit ids differ between the modes (compared by branch position)"})
    return diffs


# ---------------------------------------------------------------------------------------------
# trace parsing: per script step, which hooks git fired (name, args, env facts, stdin lines)
# ---------------------------------------------------------------------------------------------
def parse_trace(path):
    """-> list of segments {"cmd": str, "hooks": [ {name, args, ra, rb, cp, sq, stdin:[...]} ]}"""
    segs = [{"cmd": "(init)", "hooks": []}]
    if not os.path.exists(path):
        return segs
    cur = None
    for l in open(path, errors="replace"):
        l = l.rstrip("\n")
        if l.startswith("M "):
            segs.append({"cmd": l[2:], "hooks": []})
            cur = None
        elif l.startswith("H "):
            m = re.match(r"^H (\S+)((?: \[[^\]]*\])*) RA=\[(.*)\] rb=(\d) cp=(\d) sq=(\d) te=(\d)$", l)
            if not m:
                continue
            cur = {"name": m.group(1), "args": re.findall(r"\[([^\]]*)\]", m.group(2)), "ra": m.group(3),
                   "rb": m.group(4) == "1", "cp": m.group(5) == "1", "sq": m.group(6) == "1", "te": m.group(7) == "1",
                   "stdin": []}
            segs[-1]["hooks"].append(cur)
        elif l.startswith("I ") and cur is not None:
            cur["stdin"].append(l[2:].split())
    return segs


def git_segments(segs):
    return [s for s in segs if s["cmd"].startswith("git ")]


# ---------------------------------------------------------------------------------------------
# scenario
# ---------------------------------------------------------------------------------------------
STREAMS = {
    # the common alphabet, weighted towards what people do all day
    "mixed": [(9, "edit"), (6, "commit"), (2, "commit_partial"), (2, "amend"), (2, "branch"), (3, "switch"),
              (2, "rebase"), (1, "rebase_i"), (2, "cherry_pick"), (2, "reset"), (2, "stash"), (2, "stash_pop"),
              (1, "merge_squash"), (1, "checkout_path"), (1, "reset_path"), (1, "stash_apply"), (1, "stash_drop"), (2, "detach")],
    # linear work: commit / amend / reset / stash / switch (no sequencer)
    "linear": [(9, "edit"), (6, "commit"), (3, "commit_partial"), (3, "amend"), (2, "branch"), (3, "switch"),
               (3, "reset"), (2, "stash"), (3, "stash_pop"), (1, "merge_squash"), (2, "detach")],
    # work on a detached HEAD (checkout --detach / checkout <sha>): reset, commit, stash, cherry-pick, rebase there
    "detached": [(4, "detach"), (9, "edit"), (6, "commit"), (2, "commit_partial"), (1, "amend"), (5, "reset"), (2, "stash"),
                 (3, "stash_pop"), (2, "cherry_pick"), (1, "rebase"), (1, "branch"), (1, "switch"), (1, "merge_squash")],
    # history rewriting
    "rewrite": [(8, "edit"), (6, "commit"), (2, "branch"), (3, "switch"), (4, "rebase"), (3, "rebase_i"),
                (4, "cherry_pick"), (1, "amend"), (1, "merge_squash"), (1, "detach")],
    # after a rebase / cherry-pick that had to stop (see conflict_preface)
    "conflict": [(6, "edit"), (5, "commit"), (1, "amend"), (2, "switch"), (1, "cherry_pick"), (1, "rebase"), (1, "stash"),
                 (1, "stash_pop")],
    # pull (needs the sibling upstream)
    "pull": [(8, "edit"), (5, "commit"), (3, "pull_ff"), (2, "pull_rebase"), (4, "pull_shape"), (1, "amend"), (1, "stash"),
             (1, "stash_pop")],
}


def run_ops(w, r, stream, n_ops):
    for _ in range(n_ops):
        op = r.weighted(STREAMS[stream])
        if op == "edit":
            w.op_edit()
        elif op == "commit":
            w.op_commit()
        elif op == "commit_partial":
            w.op_commit_partial()
        elif op == "amend":
            w.op_amend()
        elif op == "branch":
            w.op_branch()
        elif op == "switch":
            w.op_switch()
        elif op == "rebase":
            w.op_rebase()
        elif op == "rebase_i":
            w.op_rebase(interactive=True)
        elif op == "cherry_pick":
            w.op_cherry_pick()
        elif op == "reset":
            w.op_reset()
        elif op == "stash":
            w.op_stash()
        elif op == "stash_pop":
            w.op_stash_pop()
        elif op == "merge_squash":
            w.op_merge_squash()
        elif op == "checkout_path":
            w.op_checkout_path()
        elif op == "reset_path":
            w.op_reset_path()
        elif op == "stash_apply":
            w.op_stash_apply()
        elif op == "stash_drop":
            w.op_stash_drop()
        elif op == "pull_ff":
            w.op_pull(False)
        elif op == "pull_rebase":
            w.op_pull(True)
        elif op == "detach":
            w.op_detach()
        elif op == "pull_shape":
            w.op_pull_shapes()
    # materialise whatever is pending on the current branch
    w.op_edit(actor=r.pick(["s1", "s2"]))
    w.op_commit("final")
    w.keep_detached()


def conflict_preface(w, r):
    """two branches that append different lines at the bottom of the same file, then a rebase or cherry-pick that
    must stop; the resolution may first try a `git commit` that aborts after pre-commit, then continue or abort"""
    path = r.pick([p for p in w.tracked()] or ["a.txt"])
    w.op_branch()
    w.op_edit(actor=r.pick(["s1", "s2"]), path=path, region="bottom", kinds=("ins",))
    w.op_commit()
    if r.chance(1, 2):
        w.op_edit(actor=r.pick(["s1", "s2", "H"]))
        w.op_commit()
    w.git("switch", "-q", "main")
    w.cur = "main"
    w.op_edit(actor=r.pick(["H", "s1"]), path=path, region="bottom", kinds=("ins",))
    w.op_commit()
    if r.chance(1, 2):
        w.git("switch", "-q", w.branches[-1])
        w.cur = w.branches[-1]
        w.op_rebase()
    else:
        w.op_cherry_pick()


def initial_files(r, w):
    files = {}
    for n in r.shuffle(["a.txt", "src/b.rs", "c d.py"])[:r.range(2, 3)]:
        files[n] = "".join(w_fresh(w, "H") + "\n" for _ in range(r.range(4, 8)))
    return files


def w_fresh(w, author):
    return w.fresh(author)


def _in_progress(sim, what):
    g = os.path.join(sim.repo, ".git")
    if what == "rebase":
        return os.path.isdir(os.path.join(g, "rebase-merge")) or os.path.isdir(os.path.join(g, "rebase-apply"))
    return os.path.exists(os.path.join(g, "CHERRY_PICK_HEAD")) or os.path.isdir(os.path.join(g, "sequencer"))


def _rev(sim, spec):
    return _q(sim, "rev-parse", "-q", "--verify", spec).strip() or None


def _revlist(sim, rng):
    return [x for x in _q(sim, "rev-list", "--reverse", rng).split("\n") if x]


def pending_ai_files(sim, head):
    """files for which the working log of `head` holds agent attribution (INITIAL entries, entries of non-human checkpoints)"""
    if not head:
        return []
    d = os.path.join(sim.repo, ".git", "ai", "working_logs", head)
    out = set()
    try:
        ini = json.load(open(os.path.join(d, "INITIAL"))).get("files", {})
        out |= {f for f, ls in ini.items() if any(la.get("author_id") != "human" for la in ls)}
    except Exception:
        pass
    try:
        for line in open(os.path.join(d, "checkpoints.jsonl")):
            if line.strip():
                cp = json.loads(line)
                if cp.get("kind") != "Human":
                    # only entries that claim lines for an agent (a pure deletion claims none)
                    out |= {e["file"] for e in cp.get("entries", [])
                            if any(la.get("author_id") != "human" for la in e.get("line_attributions", []))}
    except Exception:
        pass
    return sorted(out)


def rebase_mappings(sim, orig, new, onto):
    """independent re-computation of build_rebase_commit_mappings (rebase_hooks.rs) with plain git"""
    if not orig or not new:
        return [], []
    mb = _q(sim, "merge-base", orig, new).strip()
    if not mb:
        return [], []
    origs = _revlist(sim, f"{mb}..{orig}")
    if not origs:
        return [], []
    base = mb
    if onto:
        with sim.quiet():
            rc, _, _ = sim.realgit("merge-base", "--is-ancestor", onto, new)
        if rc == 0:
            base = onto
    return origs, _revlist(sim, f"{base}..{new}")


class Observer:
    """per `git` step: journal growth, side-state files (hooks mode) and the git-level facts the model's
    translations read — read-only, off the clock"""

    def __init__(self):
        self.steps = []

    def before(self, sim, k, st):
        a = st[1]
        cmd = a[0] if a else ""
        head0 = _rev(sim, "HEAD")
        with sim.quiet():
            rc_sym, _, _ = sim.realgit("symbolic-ref", "-q", "HEAD")
        b = {"jcount0": len(sim.journal()), "head0": head0, "detached0": rc_sym != 0}
        if cmd == "stash":
            b["stash_depth0"] = len([l for l in _q(sim, "stash", "list", "--format=%H").split("\n") if l])
            b["stash_top0"] = _rev(sim, "refs/stash")
        if cmd in ("rebase", "pull"):
            b["ip0"] = _in_progress(sim, "rebase")
            b["dirty_tracked0"] = bool(_q(sim, "status", "--porcelain", "--untracked-files=no").strip())
        if cmd == "cherry-pick":
            b["ip0"] = _in_progress(sim, "cherry-pick")
            srcs = []          # parse_cherry_pick_commits (cherry_pick_hooks.rs): ranges are expanded oldest first
            for x in a[1:]:
                if x.startswith("-"):
                    continue
                if ".." in x:
                    srcs.extend(_revlist(sim, x))
                else:
                    y = _rev(sim, x)
                    if y:
                        srcs.append(y)
            b["srcs"] = srcs
        if cmd in ("rebase", "pull", "checkout", "switch", "reset") and head0:
            b["wl0"] = os.path.isdir(os.path.join(sim.repo, ".git", "ai", "working_logs", head0))
        if cmd == "merge" and "--squash" in a:
            b["squash_src"] = _rev(sim, a[-1] + "^{commit}")
        if cmd == "reset":
            # extract_tree_ish (reset_hooks.rs): the first positional is taken for the tree-ish, also when it
            # stands after `--` and is a path (then it does not resolve and the wrapper gives up)
            spec = [x for x in a[1:] if not x.startswith("-")]
            b["target"] = _rev(sim, (spec[0] if spec else "HEAD") + "^{commit}")
        if cmd == "rebase":
            pos = [x for x in a[1:] if not x.startswith("-")]
            b["upstream_arg"] = _rev(sim, pos[0] + "^{commit}") if pos else None
        return b

    def after(self, sim, k, st, res, b):
        a = st[1]
        cmd = a[0] if a else ""
        j = sim.journal()
        head0 = b["head0"]
        rec = dict(b)
        rec.update({"k": k, "args": a, "rc": res[0], "new": j[b["jcount0"]:] if b["jcount0"] <= len(j) else j,
                    "head1": _rev(sim, "HEAD"), "parent1": _rev(sim, "HEAD^"), "out": (res[1] + res[2])[-300:],
                    "side": sim.side_files() if sim.mode != "wrapper" else [],
                    "masked": sim.masked_hooks() if sim.mode != "wrapper" else []})
        if cmd in ("stash", "reset"):
            rec["dirty1"] = bool(_q(sim, "status", "--porcelain").strip())     # untracked files count (status.rs)
        if cmd == "stash":
            rec["stash_depth1"] = len([l for l in _q(sim, "stash", "list", "--format=%H").split("\n") if l])
            rec["stash_top1"] = _rev(sim, "refs/stash")
        if cmd == "reset" and head0:
            rec["backward"] = subprocess.run([REALGIT, "merge-base", "--is-ancestor", b.get("target") or "HEAD", head0],
                                             cwd=sim.repo, env=sim.env(), capture_output=True).returncode == 0
        if cmd in ("rebase", "pull"):
            rec["ip1"] = _in_progress(sim, "rebase")
            if cmd == "pull":
                rec["upstream1"] = _rev(sim, "@{upstream}")
                rec["pending1"] = pending_ai_files(sim, rec["head1"])
        if cmd == "cherry-pick":
            rec["ip1"] = _in_progress(sim, "cherry-pick")
        self.steps.append(rec)


def scenario(args):
    base, seed, idx, opts = args
    stream = opts["stream"]
    r = C.Rng(seed).fork(f"c13-{stream}-{idx}")
    res = {"idx": idx, "stream": stream, "diffs": [], "problems": []}
    name = f"{stream}{idx}" if stream != "template" else "t-" + opts["template"]
    sims = []
    try:
        G = MSim(base, f"{name}-g", mode="wrapper", trace=True)
        sims.append(G)
        w0 = World.__new__(GWorld)        # fresh() needs the counters only
        World.__init__(w0, G, r)
        files = initial_files(r, w0) if stream != "template" else {"a.txt": _txt(A0), "b.txt": _txt(["b1", "b2"])}
        G.init(files)
        w = GWorld(G, r)
        w.author_of, w.counter = w0.author_of, w0.counter
        if stream == "template":
            TEMPLATES[opts["template"]][0](w)
            res["template"] = opts["template"]
        else:
            if stream == "pull":
                w.setup_remote()
            if stream == "conflict":
                conflict_preface(w, r)
            run_ops(w, r, stream, opts.get("n_ops") or (r.range(2, 6) if stream == "conflict" else r.range(6, 14)))
        res["trace"] = w.trace
        res["script_len"] = len(w.script)
        res["script"] = w.script
        attempt = 0
        while True:
            attempt += 1
            out = {}
            for tag, mode, tr in (("W", "wrapper", False), ("H", "hooks", False), ("HT", "hooks", True)) + \
                    ((("B", "both", False),) if opts.get("both") else ()):
                s = MSim(base, f"{name}-{tag.lower()}{attempt}", mode=mode, trace=tr)
                sims.append(s)
                s.init(files)
                ob = Observer()
                replay(w.script, s, ob)
                out[tag] = (s, ob)
            snaps = {t: snapshot(s) for t, (s, _) in out.items()}
            snaps["G"] = snapshot(G)
            # determinism / non-interference of the tracing hooks
            problems, cdiffs = [], []
            for a, b, what in (("G", "W", "generation (wrapper, traced) vs replay (wrapper)"),
                               ("H", "HT", "hooks vs hooks with tracing user hooks")):
                d = [x for x in compare(snaps[a], snaps[b]) if x["kind"] not in ("info", "counters")]
                if d:
                    problems.append({"what": "non-determinism or tracing interference: " + what, "detail": d[:2]})
                cdiffs.extend(x for x in compare(snaps[a], snaps[b]) if x["kind"] == "counters")
            if not problems or attempt == 2:
                break
            # a rare transient (seen once in ~700 hooks-mode executions, never reproduced): execute the replays again
            res["transient_nondeterminism"] = problems
        res["problems"] = problems
        res["same_mode_counter_diffs"] = cdiffs
        res["same_ids"] = snaps["W"]["branches"] == snaps["H"]["branches"]
        res["n_commits"] = len(snaps["W"]["notes"])
        res["diffs"] = compare(snaps["W"], snaps["H"])
        # pending attribution right after every pull: a total loss on one side only is a difference of its own
        for sw_, sh_ in zip(out["W"][1].steps, out["H"][1].steps):
            if sw_["args"][:1] == ["pull"] and "pending1" in sw_ and "pending1" in sh_ \
                    and bool(sw_["pending1"]) != bool(sh_["pending1"]):
                res["diffs"].append({"kind": "note", "branch": "(working log)", "commit": sw_["head1"],
                                     "what": f"pending attribution after `git {' '.join(sw_['args'][:3])}`: wrapper "
                                             f"{sw_['pending1']} hooks {sh_['pending1']}"})
        if "B" in out:
            jb = [shape_of(e) for e in out["B"][0].journal()]
            jw = [shape_of(e) for e in out["W"][0].journal()]
            res["both_journal_equal"] = jb == jw
            res["both_diffs"] = [x for x in compare(snaps["W"], snaps["B"]) if x["kind"] not in ("info", "counters")]
        res["segs_native"] = git_segments(parse_trace(G.tracefile))
        res["cases"] = build_cases(res["segs_native"], git_segments(parse_trace(out["HT"][0].tracefile)),
                                   out["W"][1].steps, out["H"][1].steps, out["W"][0].journal(), out["W"][0])
        res["segs_hooks"] = git_segments(parse_trace(out["HT"][0].tracefile))
        res["steps_W"] = out["W"][1].steps
        res["steps_H"] = out["H"][1].steps
        res["journal_W"] = out["W"][0].journal()
        res["journal_H"] = out["H"][0].journal()
        res["side_end"] = out["H"][0].side_files()
        res["prompt_fields"] = sorted({k for n in snaps["W"]["notes"].values() if n and "prompts" in n
                                       for rec in n["prompts"].values() for k in rec})
        return res
    finally:
        for s in sims:
            shutil.rmtree(s.base, ignore_errors=True)


def shape_of(ev):
    """a rewrite_log line modulo commit ids: (kind, structural fields)"""
    if not isinstance(ev, dict) or not ev:
        return ["?"]
    k = next(iter(ev))
    d = ev[k] if isinstance(ev[k], dict) else {}
    if k == "commit":
        return ["commit", "base" if d.get("base_commit") else "nobase"]
    if k == "commit_amend":
        return ["commit_amend"]
    if k == "rebase_start":
        return ["rebase_start"]
    if k == "rebase_complete":
        return ["rebase_complete", len(d.get("original_commits", [])), len(d.get("new_commits", []))]
    if k == "rebase_abort":
        return ["rebase_abort"]
    if k == "cherry_pick_start":
        return ["cherry_pick_start", len(d.get("source_commits", []))]
    if k == "cherry_pick_complete":
        return ["cherry_pick_complete", len(d.get("source_commits", [])), len(d.get("new_commits", []))]
    if k == "cherry_pick_abort":
        return ["cherry_pick_abort"]
    if k == "reset":
        return ["reset", d.get("kind")]
    if k == "merge_squash":
        return ["merge_squash"]
    return [k]


# ---------------------------------------------------------------------------------------------
# known classes: decidable predicates on (command sequence, git-level facts)
# ---------------------------------------------------------------------------------------------
KNOWN_DOC = {
    "C13-K1": "hook mask leak: a rebase that git ends without firing `post-rewrite rebase` (--abort, fast-forward, every "
              "commit dropped/skipped) leaves pre-commit/post-commit/reference-transaction/post-merge masked in hooks mode "
              "until the next checkout or rewrite: commits in that window get no note, stash/reset/squash are not seen",
    "C13-K2": "rebase whose post-rewrite mapping is not the positional list the wrapper computes (rebase -i drop / squash / "
              "fixup, commits skipped as already upstream): the two RebaseComplete events carry different commit lists",
    "C13-K3": "git commit / commit --amend while a rebase is stopped (edit, conflict): the wrapper runs its commit hooks, "
              "hooks mode ignores pre-commit/post-commit/post-rewrite amend during a rebase",
    "C13-K4": "cherry-pick of two or more commits: the wrapper rewrites them as one batch (content replay over the whole "
              "range), hooks mode commit by commit",
    "C13-K5": "cherry-pick stopped by a conflict and concluded with `git commit`: the wrapper records a plain commit (no "
              "attribution carried over), hooks mode a cherry-pick",
    "C13-K6": "reset shapes the reference-transaction heuristic of hooks mode gets differently: HEAD not moved backwards (reset "
              "--hard [HEAD], forward/unrelated target, path reset to an explicit commit) is seen by the wrapper only; "
              "reset --hard that leaves untracked files is rebuilt in hooks mode and deleted by the wrapper; a backward reset "
              "leaving a clean tree is deleted in hooks mode and rebuilt by the wrapper",
    "C13-K7": "path checkout (`git checkout [<tree>] -- <path>`): only the wrapper drops the pending attribution of the path "
              "(the post-checkout hook carries no pathspec)",
    "C13-K8": "stash commands that hooks mode must infer from refs/stash reference-transactions: apply (no ref change) and pop "
              "with two or more entries (git 2.39 rewrites refs/stash through the reflog, no hook) are invisible — the saved "
              "attribution is not restored; a drop with uncommitted changes (e.g. after a conflicting pop) is taken for a pop",
    "C13-K9": "git merge --squash: the wrapper keys on the exit status, hooks mode on the post-merge hook. Already up to date: "
              "exit 0 without post-merge (only the wrapper records MergeSquash and deletes the pending attribution of HEAD); "
              "stopped by a conflict: exit 1 with post-merge (only hooks mode prepares the squashed attribution)",
    "C13-K10": "rebase started while a working log exists for HEAD (e.g. an untracked file written by an agent): in hooks mode "
               "the post-checkout hook of the rebase's first checkout renames the working log onto the upstream commit, the "
               "RebaseComplete migration then finds nothing — the pending attribution is stranded",
    "C13-K12": "pull --rebase that rewrites no commit (every local commit skipped as already upstream, or none) while a working "
               "log is pending without autostash (an untracked agent file): hooks mode renames the working log to the new "
               "HEAD, the wrapper does nothing and the pending attribution is stranded",
    "C13-K13": "pull --rebase --autostash with pending attribution: the wrapper re-derives it as INITIAL line claims "
               "(restore_stashed_va), hooks mode moves the checkpoints verbatim (rename_working_log); when the file then "
               "changes without a checkpoint before it is committed (a person types in it; git stash / reset / path checkout "
               "takes the content away) the two representations attribute different lines or leave different prompt records",
    "C13-K11": "reset / stash with work-tree edits that no checkpoint has seen (a person typed above the agent's lines): only the "
               "wrapper runs the pre-command human checkpoint, so only there the pending line numbers are shifted",
}


def classify(res):
    """-> {class id: [step descriptions]} from the script's git steps, the native hook trace and the wrapper observer"""
    hits = {}

    def hit(k, what):
        hits.setdefault(k, []).append(what)

    segs = res["segs_native"]
    steps = res["steps_W"]
    n = min(len(segs), len(steps))
    mask = False
    # un-checkpointed writes per script position (K11): paths written after their newest checkpoint, among the
    # paths some agent has reported in this scenario
    script = res.get("script") or []
    unck_at, unck, ai_paths = {}, set(), set()
    for k, stp in enumerate(script):
        if stp[0] == "write" and not stp[1].startswith("../"):
            unck.add(stp[1])
        elif stp[0] == "cp_h":
            unck -= set(stp[1])
        elif stp[0] == "cp_ai":
            unck -= set(stp[2])
            ai_paths |= set(stp[2])
        elif stp[0] == "git":
            unck_at[k] = sorted(unck & ai_paths)
            if stp[1][:1] == ["commit"]:
                unck = set()
    for i in range(n):
        seg, st = segs[i], steps[i]
        a = st["args"]
        cmd = a[0] if a else ""
        names = [h["name"] for h in seg["hooks"]]
        # ---- K1: the mask state machine of hooks mode driven by git's native firing
        for h in seg["hooks"]:
            nm = h["name"]
            if nm == "pre-rebase":
                mask = True
            elif nm == "post-rewrite" and h["args"][:1] == ["rebase"]:
                mask = False
            elif nm in ("post-checkout", "post-rewrite"):
                ra = h["ra"].lower()
                if ("rebase (abort)" in ra) or ("rebase --abort" in ra) or (mask and not h["rb"]) or \
                        (nm == "post-checkout" and ra.startswith("pull") and h["rb"] and h["te"]):
                    mask = False
            elif nm in MANAGED and mask and not h["rb"]:
                if nm in ("pre-commit", "post-commit", "post-merge") or \
                        (nm == "reference-transaction" and h["args"][:1] == ["committed"] and
                         (any(len(x) >= 3 and x[2] == "refs/stash" for x in h["stdin"]) or
                          (cmd == "reset" and any(len(x) >= 3 and x[2] == "HEAD" for x in h["stdin"])))):
                    hit("C13-K1", f"step {i} `git {' '.join(a[:3])}`: {nm} fires while the mask is on")
        # ---- K2
        for h in (seg["hooks"] if cmd == "rebase" else []):
            if h["name"] == "post-rewrite" and h["args"][:1] == ["rebase"]:
                olds = [x[0] for x in h["stdin"] if len(x) >= 2]
                news = [x[1] for x in h["stdin"] if len(x) >= 2]
                rc_ = [e["rebase_complete"] for e in st["new"] if "rebase_complete" in e]
                if not rc_ or rc_[0]["original_commits"] != olds or rc_[0]["new_commits"] != news:
                    hit("C13-K2", f"step {i} `git {' '.join(a[:3])}`: post-rewrite maps {len(olds)}->{len(set(news))}, "
                                  f"wrapper {[(len(x['original_commits']), len(x['new_commits'])) for x in rc_]}")
        # ---- K3 / K5
        if cmd == "commit":
            if any(h["rb"] for h in seg["hooks"] if h["name"] in ("pre-commit", "post-commit", "prepare-commit-msg")):
                hit("C13-K3", f"step {i}: commit while a rebase is stopped")
            if st["rc"] == 0 and any(h["cp"] for h in seg["hooks"] if h["name"] in ("pre-commit", "prepare-commit-msg")):
                hit("C13-K5", f"step {i}: commit concludes a cherry-pick")
        # ---- K4
        if cmd == "cherry-pick":
            k0 = i
            while k0 > 0 and steps[k0]["args"][:1] == ["cherry-pick"] and steps[k0]["args"][1:2] and \
                    steps[k0]["args"][1] in ("--continue", "--skip", "--abort"):
                k0 -= 1
            made = sum(1 for j in range(k0, i + 1) for h in segs[j]["hooks"] if h["name"] == "post-commit")
            if made >= 2:
                hit("C13-K4", f"step {i}: cherry-pick operation made {made} commits")
        # ---- K6
        if cmd == "reset" and st["rc"] == 0:
            if "--" in a:
                if st.get("target") and st.get("backward"):
                    hit("C13-K6", f"step {i}: path reset to an explicit commit")
            elif st["head0"] == st["head1"]:
                hit("C13-K6", f"step {i}: reset without moving HEAD")
            elif "--hard" in a and st.get("dirty1"):
                hit("C13-K6", f"step {i}: reset --hard that leaves untracked files (hooks mode rebuilds, the wrapper deletes)")
            elif "--hard" not in a and st.get("backward", True) and not st.get("dirty1"):
                hit("C13-K6", f"step {i}: backward reset that leaves a clean tree (hooks mode deletes, the wrapper rebuilds)")
            elif not st.get("backward", True):
                hit("C13-K6", f"step {i}: reset forwards / to an unrelated commit")
        # ---- K10
        if cmd == "rebase" and "pre-rebase" in names and st.get("wl0"):
            co = [h for h in seg["hooks"] if h["name"] == "post-checkout"]
            if co and co[0]["args"][:2] and co[0]["args"][0] != co[0]["args"][1]:
                hit("C13-K10", f"step {i}: rebase starts with a working log for HEAD")
        # ---- K12
        if cmd == "pull" and "pre-rebase" in names and st["rc"] == 0 and st.get("wl0") and st["head0"] != st["head1"] \
                and not any(h["name"] == "post-rewrite" and h["args"][:1] == ["rebase"] for h in seg["hooks"]) \
                and not ("--autostash" in a and st.get("dirty_tracked0")):
            hit("C13-K12", f"step {i}: pull --rebase rewrote nothing, a working log is pending, no autostash")
        # ---- K13
        if cmd == "pull" and "--autostash" in a and st.get("dirty_tracked0") and st.get("wl0") and st["rc"] == 0 \
                and st["head0"] != st["head1"] and st.get("pending1"):
            window, nxt = [], None
            for s2 in steps[i + 1:n]:
                if s2["args"][:1] == ["commit"] and s2["rc"] == 0:
                    nxt = s2
                    break
                window.append(s2)
            moved = [s2 for s2 in window if s2["args"][:1] in (["stash"], ["reset"], ["pull"], ["rebase"], ["cherry-pick"], ["merge"])
                     or (s2["args"][:1] == ["checkout"] and "--" in s2["args"])]
            if nxt is not None and set(unck_at.get(nxt["k"], [])) & set(st["pending1"]):
                hit("C13-K13", f"step {i}: autostash pull carried pending attribution of {st['pending1'][:2]}; the file is then "
                               f"edited without a checkpoint before the next commit")
            elif moved:
                hit("C13-K13", f"step {i}: autostash pull carried pending attribution of {st['pending1'][:2]}; before the next "
                               f"commit `git {' '.join(moved[0]['args'][:2])}` changes the work tree without a checkpoint")
        # ---- K11
        if ((cmd == "reset" and "--hard" not in a) or (cmd == "stash" and (len(a) == 1 or a[1] in ("push", "drop")))) \
                and unck_at.get(st["k"]):
            hit("C13-K11", f"step {i}: `git {' '.join(a[:2])}` with un-checkpointed edits in {unck_at[st['k']][:3]}")
        # ---- K7
        if cmd == "checkout" and "--" in a:
            hit("C13-K7", f"step {i}: path checkout")
        # ---- K8
        if cmd == "stash":
            sub = a[1] if len(a) > 1 and not a[1].startswith("-") else "push"
            if sub == "apply":
                hit("C13-K8", f"step {i}: stash apply")
            elif sub == "pop" and st["rc"] != 0:
                hit("C13-K8", f"step {i}: stash pop stopped by a conflict (the entry stays, a later drop looks like a pop)")
            elif sub == "pop" and (st.get("stash_depth0") or 0) >= 2:
                hit("C13-K8", f"step {i}: stash pop with {st.get('stash_depth0')} entries (no reference-transaction is fired)")
            elif sub == "drop" and st["rc"] == 0 and st.get("dirty1"):
                hit("C13-K8", f"step {i}: stash drop with uncommitted changes (hooks mode takes it for a pop)")
        # ---- K9
        if cmd == "merge" and "--squash" in a and (st["rc"] == 0) != ("post-merge" in names):
            hit("C13-K9", f"step {i}: merge --squash, " + ("nothing to merge" if st["rc"] == 0 else "stopped by a conflict"))
    return hits


# ---------------------------------------------------------------------------------------------
# correspondence: one model case per git step
# ---------------------------------------------------------------------------------------------
def _journal_state(prefix, kind):
    """(has_active_start, newest start event) for kind in ('rebase', 'cherry_pick') — journal oldest first"""
    active, start = False, None
    for ev in reversed(prefix):
        k = next(iter(ev))
        if k in (kind + "_complete", kind + "_abort"):
            break
        if k == kind + "_start":
            active = True
            break
    for ev in reversed(prefix):
        if next(iter(ev)) == kind + "_start":
            start = ev[kind + "_start"]
            break
    return active, start


class Ids:
    def __init__(self):
        self.m = {}

    def __call__(self, sha):
        if not sha:
            return "none"
        if set(sha) == {"0"}:
            return 0
        return self.m.setdefault(sha, len(self.m) + 1)

    def lst(self, shas):
        return [self(s) for s in shas]


def _b(x):
    return 1 if x else 0


def model_case(i, st, seg, journal_w, ids, sim_maps):
    """-> (class, facts dict, expected native hook names) or None when the command shape is outside the alphabet"""
    a = st["args"]
    cmd = a[0] if a else ""
    hooks = seg["hooks"]
    names = [h["name"] for h in hooks]
    f = {"head": ids(st["head0"]), "head_after": ids(st["head1"]), "parent_after": ids(st.get("parent1")),
         "exit_ok": _b(st["rc"] == 0), "detached": _b(st.get("detached0"))}
    prefix = journal_w[:st["jcount0"]]
    cls = None
    if cmd == "commit":
        if "--dry-run" in a:
            return None
        cls = "commit_amend" if "--amend" in a else "commit"
        pre = [h for h in hooks if h["name"] in ("pre-commit", "prepare-commit-msg")]
        f["rb_now"] = _b(any(h["rb"] for h in pre))
        f["msg_aborted"] = _b(st["rc"] != 0 and "prepare-commit-msg" in names)
        f["cph_now"] = 999 if any(h["cp"] for h in pre) else "none"
    elif cmd == "rebase":
        ctl = [x for x in a[1:] if x in ("--continue", "--skip", "--abort")]
        cls = "rebase_abort" if "--abort" in ctl else ("rebase_continue" if ctl else ("rebase_i" if "-i" in a else "rebase"))
        active, start = _journal_state(prefix, "rebase")
        if ctl and not active:
            return None        # continuation of a rebase that was not started by `git rebase` (pull --rebase): outside the alphabet
        f.update({"in_progress": _b(st.get("ip0")), "in_progress_after": _b(st.get("ip1")), "journal_active": _b(active),
                  "journal_start": ids(start["original_head"]) if start else "none", "wl_pending": _b(st.get("wl0"))})
        fired_pre = "pre-rebase" in names
        f["uptodate"] = _b(not fired_pre and not ctl)
        co = [h for h in hooks if h["name"] == "post-checkout"]
        onto = st.get("upstream_arg")
        f["upstream"] = ids(onto)
        f["onto"] = ids(onto)
        f["co_head"] = ids(co[0]["args"][1]) if co else ids(onto)
        pr = [h for h in hooks if h["name"] == "post-rewrite" and h["args"][:1] == ["rebase"]]
        pairs = [(x[0], x[1]) for x in pr[0]["stdin"] if len(x) >= 2] if pr else []
        f["picks"] = [[ids(o), ids(n)] for o, n in pairs]
        orig = (start["original_head"] if start else None) if (st.get("ip0") and active) else st["head0"]
        onto_w = (start or {}).get("onto_head") if ctl else onto
        os_, ns_ = sim_maps(orig, st["head1"], onto_w) if (not st.get("ip1") and st["rc"] == 0) else ([], [])
        f["origs"], f["news"] = ids.lst(os_), ids.lst(ns_)
        skip = {id(h) for h in (co[:1] + pr[:1])}
        f["noise"] = [h["name"] for h in hooks if id(h) not in skip and h["name"] != "pre-rebase" and h["rb"]
                      and not (h["name"] == "post-rewrite" and h["args"][:1] == ["rebase"])]
    elif cmd == "cherry-pick":
        ctl = [x for x in a[1:] if x in ("--continue", "--skip", "--abort", "--quit")]
        cls = "cherry_pick_abort" if ("--abort" in ctl or "--quit" in ctl) else ("cherry_pick_continue" if ctl else "cherry_pick")
        active, start = _journal_state(prefix, "cherry_pick")
        if ctl and st["rc"] != 0 and cls == "cherry_pick_continue":
            return None        # a --continue / --skip that git refuses (empty pick, unresolved paths): outside the alphabet
        f.update({"in_progress": _b(st.get("ip0")), "in_progress_after": _b(st.get("ip1")), "journal_active": _b(active),
                  "journal_start": ids(start["original_head"]) if start else "none",
                  "journal_srcs": ids.lst(start["source_commits"]) if start else []})
        srcs = st.get("srcs") or []
        f["srcs"] = ids.lst(srcs)
        orig = start["original_head"] if (ctl and start) else st["head0"]
        all_new = sim_maps.revlist(f"{orig}..{st['head1']}") if orig and st["head1"] else []
        new_here = sim_maps.revlist(f"{st['head0']}..{st['head1']}") if st["head0"] and st["head1"] else []
        pend = (start["source_commits"] if (ctl and start) else srcs)
        done_before = len(all_new) - len(new_here)
        posts = [h for h in hooks if h["name"] == "post-commit"]
        made, par = [], st["head0"]
        for k_, n_ in enumerate(new_here):
            src = pend[done_before + k_] if done_before + k_ < len(pend) else None
            pc = posts[k_] if k_ < len(posts) else {"cp": False, "sq": False}
            made.append([ids(src) if src else 998, ids(n_), ids(par), _b(pc["cp"]), _b(pc["sq"])])
            par = n_
        f["made"] = made
        f["news"] = ids.lst(all_new) if (not st.get("ip1") and st["rc"] == 0) else []
    elif cmd == "reset":
        if "--" in a:
            cls = "reset_path"
        else:
            cls = "reset_hard" if "--hard" in a else ("reset_soft" if "--soft" in a else "reset_mixed")
        f.update({"target": ids(st.get("target")), "backward": _b(st.get("backward")), "dirty_after": _b(st.get("dirty1"))})
    elif cmd == "stash":
        sub = a[1] if len(a) > 1 and not a[1].startswith("-") else "push"
        if sub not in ("push", "pop", "apply", "drop"):
            return None
        cls = "stash_" + sub
        d0, d1 = st.get("stash_depth0") or 0, st.get("stash_depth1") or 0
        f.update({"stash_top": ids(st.get("stash_top0")), "stash_before": d0, "stash_after": d1,
                  "stash_new": ids(st.get("stash_top1")) if d1 > d0 else "none", "dirty_after": _b(st.get("dirty1"))})
    elif cmd == "merge" and "--squash" in a:
        cls = "merge_squash"
        f.update({"squash_src": ids(st.get("squash_src")), "merged": _b("post-merge" in names)})
    elif cmd in ("checkout", "switch"):
        cls = "checkout_path" if "--" in a else ("switch_branch" if cmd == "switch" else "checkout_branch")
    elif cmd == "pull":
        if "--rebase" in a and "post-merge" not in names:
            if st.get("ip1") or st["rc"] != 0:
                return None            # pull --rebase stopped by a conflict: outside the modelled alphabet
            cls = "pull_rebase"
            fired_pre = "pre-rebase" in names
            co = [h for h in hooks if h["name"] == "post-checkout"]
            up = co[0]["args"][1] if co else st.get("upstream1")
            pr = [h for h in hooks if h["name"] == "post-rewrite" and h["args"][:1] == ["rebase"]]
            pairs = [(x[0], x[1]) for x in pr[0]["stdin"] if len(x) >= 2] if pr else []
            os_, ns_ = sim_maps(st["head0"], st["head1"], st.get("upstream1")) if st["rc"] == 0 else ([], [])
            skip = {id(h) for h in (co[:1] + pr[:1])}
            f.update({"in_progress": _b(st.get("ip0")), "in_progress_after": _b(st.get("ip1")), "upstream": ids(up),
                      "co_head": ids(up),
                      "uptodate": _b(not fired_pre), "picks": [[ids(o), ids(n)] for o, n in pairs],
                      "origs": ids.lst(os_), "news": ids.lst(ns_), "wl_pending": _b(st.get("wl0")),
                      "autostash_va": _b("--autostash" in a and st.get("dirty_tracked0") and st.get("wl0")),
                      "upstream_touches_pending": 0,       # by construction: upstream commits touch up/ and dup/ only
                      "noise": [h["name"] for h in hooks if id(h) not in skip and h["name"] != "pre-rebase" and h["rb"]
                                and not (h["name"] == "post-rewrite" and h["args"][:1] == ["rebase"])]})
        else:
            cls = "pull_ff"
    if cls is None:
        return None
    return cls, f


class _Maps:
    def __init__(self, sim):
        self.sim = sim

    def __call__(self, orig, new, onto):
        return rebase_mappings(self.sim, orig, new, onto)

    def revlist(self, rng):
        return _revlist(self.sim, rng)


def build_cases(segs_native, segs_hooks, steps_w, steps_h, journal_w, sim_w):
    ids = Ids()
    maps = _Maps(sim_w)
    cases = []
    n = min(len(segs_native), len(steps_w), len(steps_h), len(segs_hooks))
    for i in range(n):
        mc = model_case(i, steps_w[i], segs_native[i], journal_w, ids, maps)
        if mc is None:
            cases.append(None)
            continue
        cls, f = mc
        f = dict(f)
        pre_mask = bool(steps_h[i - 1]["masked"]) if i > 0 else False
        f["pre"] = [_b(pre_mask), _b(i > 0 and "pull_hook_state.json" in steps_h[i - 1]["side"])]
        cases.append({"i": i, "cmd": " ".join(steps_w[i]["args"][:4]), "cls": cls, "facts": facts_sx(f),
                      "real_w": [shape_of(e) for e in steps_w[i]["new"]], "real_h": [shape_of(e) for e in steps_h[i]["new"]],
                      "native": [h["name"] for h in segs_native[i]["hooks"]],
                      "ran_h": [h["name"] for h in segs_hooks[i]["hooks"]],
                      "mask_after": bool(steps_h[i]["masked"]), "pre_mask": pre_mask,
                      "side_after": steps_h[i]["side"]})
    return cases


def facts_sx(f):
    def v(x):
        if isinstance(x, list):
            return "(" + " ".join(v(y) for y in x) + ")"
        return str(x)
    return "(" + " ".join(f"({k} {v(x)})" for k, x in f.items()) + ")"


NOT_REFTX = lambda n: n != "reference-transaction"   # noqa: E731


def parse_model_line(line):
    out = {}
    for m in re.finditer(r"(\w+)=(\((?:[^()]|\((?:[^()]|\([^()]*\))*\))*\)|\S+)", line):
        k, val = m.group(1), m.group(2)
        out[k] = C.sx_parse_many(val)[0] if val.startswith("(") else val
    return out


def norm_shape(x):
    return [str(y) for y in x] if isinstance(x, list) else [str(x)]


# ---------------------------------------------------------------------------------------------
# templates: one scripted history per command class / known class (they double as the witnesses)
# ---------------------------------------------------------------------------------------------
A0 = ["a1", "a2", "a3"]


def _txt(lines):
    return "".join(x + "\n" for x in lines)


def _ai(w, path, lines, sess="s1"):
    w.cp_h([path])
    w.write(path, _txt(lines))
    w.cp_ai(sess, [path])


def _commit(w, msg):
    w.realgit("add", "-A")
    return w.git("commit", "-q", "-m", msg)[0]


def _after(w):
    """an AI edit committed afterwards: shows whether the commit hooks still work"""
    old = (w.sim.read("z.txt") or "")
    _ai(w, "z.txt", [l for l in old.split("\n") if l] + [f"Z{len(old)}"], "s2")
    _commit(w, "after")


def _feature2(w, conflict=False):
    """feat: f1 (AI lines at the bottom of a.txt), f2 (AI file c.txt); main: m1"""
    w.git("switch", "-q", "-c", "feat")
    _ai(w, "a.txt", A0 + ["AI1", "AI2"])
    _commit(w, "f1")
    _ai(w, "c.txt", ["C1", "C2"], "s2")
    _commit(w, "f2")
    w.git("switch", "-q", "main")
    if conflict:
        w.write("a.txt", _txt(A0 + ["M1"]))
    else:
        w.write("b.txt", _txt(["b0", "b1", "b2"]))
    _commit(w, "m1")


def _resolve(w):
    w.write("a.txt", _txt(A0 + ["M1", "AI1", "AI2"]))
    w.realgit("add", "-A")


def _seq_env(w, mode):
    ed = os.path.join(w.sim.base, f"seqed-{mode}.py")
    with open(ed, "w") as f:
        f.write(SEQ_EDITOR_X % mode)
    return {"GIT_EDITOR": "true", "GIT_SEQUENCE_EDITOR": f"python3 {shlex.quote(ed)}"}


SEQ_EDITOR_X = r'''
import sys
mode = %r
p = sys.argv[1]
lines = [l for l in open(p).read().split("\n")]
picks = [l for l in lines if l.startswith("pick ")]
rest = [l for l in lines if not l.startswith("pick ")]
if mode in ("squash", "fixup") and len(picks) > 1:
    picks = [picks[0]] + [mode + l[4:] for l in picks[1:]]
elif mode == "drop" and len(picks) > 1:
    picks = picks[:-1]
elif mode == "dropall":
    picks = ["noop"]
elif mode == "reword":
    picks = ["reword" + l[4:] for l in picks]
elif mode == "edit":
    picks = ["edit" + picks[0][4:]] + picks[1:]
open(p, "w").write("\n".join(picks + rest) + "\n")
'''

E = {"GIT_EDITOR": "true"}


def t_commit_amend(w):
    _ai(w, "a.txt", A0 + ["AI1", "AI2"])
    _commit(w, "c1")
    _ai(w, "a.txt", A0 + ["AI1", "AI2", "AI3"])
    w.realgit("add", "-A")
    w.git("commit", "-q", "--amend", "--no-edit")


def t_rebase_ok(w):
    _feature2(w)
    w.git("switch", "-q", "feat")
    w.git("rebase", "main", env_extra=E)
    _after(w)


def t_rebase_conflict_continue(w):
    _feature2(w, conflict=True)
    w.git("switch", "-q", "feat")
    w.git("rebase", "main", env_extra=E)
    _resolve(w)
    w.git("rebase", "--continue", env_extra=E)
    _after(w)


def t_rebase_abort(w):
    _feature2(w, conflict=True)
    w.git("switch", "-q", "feat")
    w.git("rebase", "main", env_extra=E)
    w.git("rebase", "--abort")
    _after(w)


def t_rebase_ff(w):
    _feature2(w)
    w.git("switch", "-q", "-c", "old", "main~1")
    w.git("rebase", "main", env_extra=E)
    _after(w)


def t_rebase_uptodate(w):
    _feature2(w)
    w.git("rebase", "main~1", env_extra=E)
    _after(w)


def _rebi(mode):
    def f(w):
        _feature2(w)
        w.git("switch", "-q", "feat")
        w.git("rebase", "-i", "main", env_extra=_seq_env(w, mode))
        _after(w)
    f.__name__ = "t_rebase_i_" + mode
    return f


def t_rebase_edit_amend(w):
    _feature2(w)
    w.git("switch", "-q", "feat")
    w.git("rebase", "-i", "main", env_extra=_seq_env(w, "edit"))
    _ai(w, "a.txt", A0 + ["AI1", "AI2", "E1"], "s2")
    w.realgit("add", "-A")
    w.git("commit", "-q", "--amend", "--no-edit")
    w.git("rebase", "--continue", env_extra=E)
    _after(w)


def t_rebase_untracked_ai(w):
    _feature2(w)
    w.git("switch", "-q", "feat")
    _ai(w, "u.txt", ["U1", "U2"], "s1")            # untracked: the rebase is allowed
    w.git("rebase", "main", env_extra=E)
    _commit(w, "u")


def t_cp_single(w):
    _feature2(w)
    w.git("cherry-pick", "feat~1", env_extra=E)
    _after(w)


def t_cp_range(w):
    _feature2(w)
    w.git("cherry-pick", "main..feat", env_extra=E)
    _after(w)


def t_cp_conflict_continue(w):
    _feature2(w, conflict=True)
    w.git("cherry-pick", "feat~1", env_extra=E)
    _resolve(w)
    w.git("cherry-pick", "--continue", env_extra=E)
    _after(w)


def t_cp_conflict_continue_two(w):
    _feature2(w, conflict=True)
    w.git("cherry-pick", "feat~1", "feat", env_extra=E)
    _resolve(w)
    w.git("cherry-pick", "--continue", env_extra=E)
    _after(w)


def t_cp_conflict_commit(w):
    _feature2(w, conflict=True)
    w.git("cherry-pick", "feat~1", env_extra=E)
    _resolve(w)
    w.git("commit", "-q", "--no-edit", env_extra=E)
    _after(w)


def _cp_failed_commit(then):
    """cherry-pick stops on a conflict; the user resolves and runs `git commit`, which aborts AFTER the pre-commit hook
    (empty message); then --abort / --quit / --skip / --continue; then an ordinary commit of agent lines"""
    def f(w):
        _feature2(w, conflict=True)
        w.git("cherry-pick", "feat~1", env_extra=E)
        _resolve(w)
        w.git("commit", "-m", "")
        w.git("cherry-pick", "--" + then, env_extra=E)
        _ai(w, "g.txt", ["G1", "G2"], "s1")
        _commit(w, "aicommit")
        _after(w)
    f.__name__ = "t_cp_failed_commit_" + then
    return f


def t_rebase_failed_commit_abort(w):
    _feature2(w, conflict=True)
    w.git("switch", "-q", "feat")
    w.git("rebase", "main", env_extra=E)
    _resolve(w)
    w.git("commit", "-m", "")
    w.git("rebase", "--abort")
    w.git("switch", "-q", "main")            # any checkout lifts the leaked hook mask (K1)
    _ai(w, "g.txt", ["G1", "G2"], "s1")
    _commit(w, "aicommit")


def t_cp_abort(w):
    _feature2(w, conflict=True)
    w.git("cherry-pick", "feat~1", "feat", env_extra=E)
    w.git("cherry-pick", "--abort")
    _after(w)


def _two_commits_pending(w):
    _ai(w, "a.txt", A0 + ["AI1", "AI2"])
    _commit(w, "c1")
    _ai(w, "c.txt", ["C1", "C2"], "s2")
    _commit(w, "c2")
    _ai(w, "b.txt", ["b1", "b2", "P1"], "s1")


def _reset(args):
    def f(w):
        _two_commits_pending(w)
        w.git("reset", *args)
        if "--hard" in args:
            w.write("b.txt", _txt(["b1", "b2", "H1"]))
        _commit(w, "re")
    return f


def t_reset_human_shift(w):
    _ai(w, "a.txt", A0 + ["AI1", "AI2"])
    _commit(w, "c1")
    _ai(w, "b.txt", ["b1", "b2", "P1"], "s2")
    w.write("b.txt", _txt(["TOP", "b1", "b2", "P1"]))     # a person types a line above; no checkpoint
    w.git("reset", "--soft", "HEAD~1")
    _commit(w, "re")


def _pend(w):
    _ai(w, "a.txt", A0 + ["AI1", "AI2"])
    _commit(w, "c1")
    _ai(w, "b.txt", ["b1", "b2", "P1", "P2"], "s2")


def t_stash_pop(w):
    _pend(w)
    w.git("stash")
    w.write("c.txt", "h\n")
    _commit(w, "mid")
    w.git("stash", "pop")
    _commit(w, "re")


def t_stash_apply(w):
    _pend(w)
    w.git("stash", "push")
    w.write("c.txt", "h\n")
    _commit(w, "mid")
    w.git("stash", "apply")
    _commit(w, "re")


def t_stash_two_pop(w):
    _pend(w)
    w.git("stash")
    _ai(w, "c.txt", ["Q1"], "s1")
    w.realgit("add", "-A")
    w.git("stash")
    w.write("d.txt", "h\n")
    _commit(w, "mid")
    w.git("stash", "pop")
    _commit(w, "re1")
    w.git("stash", "pop")
    _commit(w, "re2")


def t_stash_drop_dirty(w):
    _pend(w)
    w.git("stash")
    w.write("b.txt", _txt(["b1", "b2", "H1", "H2"]))
    w.git("stash", "drop")
    _commit(w, "re")


def t_merge_squash(w):
    _feature2(w)
    w.git("merge", "--squash", "feat")
    w.git("commit", "-q", "-m", "sq")


def t_merge_squash_noop(w):
    w.git("switch", "-q", "-c", "feat")
    w.git("switch", "-q", "main")
    _ai(w, "a.txt", A0 + ["AI1"])
    w.git("merge", "--squash", "feat")
    _commit(w, "re")


def t_merge_squash_conflict(w):
    _feature2(w, conflict=True)
    w.git("merge", "--squash", "feat")
    _resolve(w)
    w.git("commit", "-q", "-m", "sq")


def t_reset_hard_untracked(w):
    _ai(w, "a.txt", A0 + ["AI1", "AI2"])
    _commit(w, "c1")
    _ai(w, "b.txt", ["b1", "b2", "B3"], "s2")
    _commit(w, "c2")
    _ai(w, "n.txt", ["N1", "N2"], "s1")          # untracked: survives reset --hard
    w.git("reset", "--hard", "HEAD~1")
    _commit(w, "re")


def _detached(kind, how="--detach"):
    """the histories of the branch templates, on a detached HEAD (a move of HEAD updates no refs/heads/...)"""
    def f(w):
        _ai(w, "a.txt", A0 + ["AI0"])
        _commit(w, "c0")
        if how == "sha":
            w.write("b.txt", _txt(["b1", "b2", "b3"]))
            _commit(w, "c0b")
            w.git("checkout", "-q", "HEAD~1")
        else:
            w.git("checkout", "-q", "--detach")
        _ai(w, "a.txt", A0 + ["AI0", "AI1", "AI2"])
        _commit(w, "second")
        if kind in ("soft", "mixed", "hard"):
            _ai(w, "c.txt", ["C1", "C2"], "s2")
            if kind == "hard":
                _commit(w, "third")
            w.git("reset", *(["--soft"] if kind == "soft" else ["--hard"] if kind == "hard" else []), "HEAD~1")
            if kind == "hard":
                w.write("c.txt", _txt(["H1"]))
            _commit(w, "again")
        elif kind == "amend":
            _ai(w, "a.txt", A0 + ["AI0", "AI1", "AI2", "AI3"], "s2")
            w.realgit("add", "-A")
            w.git("commit", "-q", "--amend", "--no-edit")
        elif kind == "stash":
            _ai(w, "a.txt", A0 + ["AI0", "AI1", "AI2", "P1"], "s2")
            w.git("stash")
            w.write("d.txt", "h\n")
            _commit(w, "mid")
            w.git("stash", "pop")
            _commit(w, "popped")
        elif kind == "cherry_pick":
            w.git("switch", "-q", "-c", "side", "main")
            _ai(w, "c.txt", ["C1", "C2"], "s2")
            _commit(w, "s1")
            w.git("checkout", "-q", "--detach", "main")
            w.git("cherry-pick", "side", env_extra=E)
            _after(w)
        elif kind == "rebase_stop_reset":
            pass
        w.git("switch", "-q", "-c", "kept")
    f.__name__ = "t_detached_" + kind
    return f


def t_stopped_rebase_reset(w):
    """a rebase stopped by `edit` leaves HEAD detached: reset --soft of the just-picked commit, commit again, continue"""
    _feature2(w)
    w.git("switch", "-q", "feat")
    w.git("rebase", "-i", "main", env_extra=_seq_env(w, "edit"))
    w.git("rebase", "--continue", env_extra=E)
    _after(w)


def t_checkout_branch_pending(w):
    _pend(w)
    w.git("checkout", "-b", "nb")
    w.git("switch", "main")
    w.git("checkout", "nb")
    _commit(w, "re")


def t_checkout_path(w):
    _pend(w)
    w.git("checkout", "--", "b.txt")
    w.write("b.txt", _txt(["b1", "b2", "H1", "H2"]))
    _commit(w, "re")


def t_pull_ff(w):
    w.setup_remote()
    w.upstream_commit()
    _ai(w, "a.txt", A0 + ["P1"])
    w.git("pull", "--ff-only", "-q")
    _commit(w, "re")


def _pull_shape(shape, pending):
    def f(w):
        w.setup_remote()
        w.upstream_commit()
        if shape in ("noop", "partial"):
            w.upstream_and_local_duplicate()
        if shape in ("real", "partial"):
            _ai(w, "c.txt", ["C1", "C2"], "s2")
            _commit(w, "l1")
        args = ["pull", "--rebase", "-q"]
        if pending == "autostash":
            _ai(w, "a.txt", A0 + ["AI1", "AI2"])
            args.append("--autostash")
        elif pending == "untracked":
            _ai(w, "n.txt", ["N1", "N2"])
        w.git(*args, env_extra=E)
        _commit(w, "local-after")
        _after(w)
    f.__name__ = f"t_pull_{shape}_{pending}"
    return f


def t_pull_autostash_then_human(w):
    w.setup_remote()
    w.upstream_commit()
    _ai(w, "c.txt", ["C1", "C2"], "s2")
    _commit(w, "l1")
    _ai(w, "a.txt", ["a1", "a2 changed by the agent", "a3"])      # pending: the agent rewrote line 2
    w.git("pull", "--rebase", "-q", "--autostash", env_extra=E)
    w.write("a.txt", _txt(["TOP1", "TOP2", "a1", "a2 changed by the agent", "a3"]))   # a person types above, no checkpoint
    _commit(w, "local-after")


def t_pull_autostash_then_stash(w):
    w.setup_remote()
    w.upstream_commit()
    _ai(w, "c.txt", ["C1", "C2"], "s2")
    _commit(w, "l1")
    _ai(w, "a.txt", A0 + ["AI1", "AI2"], "s2")               # pending, carried across the pull by autostash
    w.git("pull", "--rebase", "-q", "--autostash", env_extra=E)
    w.git("stash")                                            # the content goes away without a checkpoint
    _ai(w, "b.txt", ["b1", "b2", "B3"], "s1")
    _commit(w, "local-after")


def t_pull_rebase(w):
    w.setup_remote()
    w.upstream_commit()
    _ai(w, "a.txt", A0 + ["AI1", "AI2"])
    _commit(w, "l1")
    _ai(w, "c.txt", ["C1", "C2"], "s2")
    _commit(w, "l2")
    w.git("pull", "--rebase", "-q", env_extra=E)
    _after(w)


# template -> (function, known classes it must be recognised in; () = the modes must agree)
TEMPLATES = {
    "commit_amend": (t_commit_amend, ()),
    "rebase_ok": (t_rebase_ok, ()),
    "rebase_conflict_continue": (t_rebase_conflict_continue, ()),
    "rebase_uptodate": (t_rebase_uptodate, ()),
    "rebase_i_keep": (_rebi("keep"), ()),
    "rebase_i_reword": (_rebi("reword"), ()),
    "rebase_abort": (t_rebase_abort, ("C13-K1",)),
    "rebase_ff": (t_rebase_ff, ("C13-K1",)),
    "rebase_i_dropall": (_rebi("dropall"), ("C13-K1",)),
    "rebase_i_squash": (_rebi("squash"), ("C13-K2",)),
    "rebase_i_drop": (_rebi("drop"), ("C13-K2",)),
    "rebase_edit_amend": (t_rebase_edit_amend, ("C13-K3",)),
    "rebase_untracked_ai": (t_rebase_untracked_ai, ("C13-K10",)),
    "cp_single": (t_cp_single, ()),
    "cp_conflict_continue": (t_cp_conflict_continue, ()),
    "cp_abort": (t_cp_abort, ()),
    "cp_failed_commit_abort": (_cp_failed_commit("abort"), ()),
    "cp_failed_commit_quit": (_cp_failed_commit("quit"), ()),
    "cp_failed_commit_skip": (_cp_failed_commit("skip"), ()),
    "cp_failed_commit_continue": (_cp_failed_commit("continue"), ()),
    "rebase_failed_commit_abort": (t_rebase_failed_commit_abort, ("C13-K3",)),
    "cp_range": (t_cp_range, ("C13-K4",)),
    "cp_conflict_continue_two": (t_cp_conflict_continue_two, ("C13-K4",)),
    "cp_conflict_commit": (t_cp_conflict_commit, ("C13-K5",)),
    "reset_soft": (_reset(["--soft", "HEAD~1"]), ()),
    "reset_mixed": (_reset(["HEAD~1"]), ()),
    "reset_hard": (_reset(["--hard", "HEAD~1"]), ()),
    "reset_path_plain": (_reset(["-q", "--", "b.txt"]), ()),
    "reset_hard_head": (_reset(["--hard", "HEAD"]), ("C13-K6",)),
    "reset_path_back": (_reset(["HEAD~1", "--", "c.txt"]), ("C13-K6",)),
    "reset_human_shift": (t_reset_human_shift, ("C13-K11",)),
    "stash_pop": (t_stash_pop, ()),
    "stash_apply": (t_stash_apply, ("C13-K8",)),
    "stash_two_pop": (t_stash_two_pop, ("C13-K8",)),
    "stash_drop_dirty": (t_stash_drop_dirty, ("C13-K8", "C13-K11")),
    "merge_squash": (t_merge_squash, ()),
    "merge_squash_noop": (t_merge_squash_noop, ("C13-K9",)),
    "merge_squash_conflict": (t_merge_squash_conflict, ("C13-K9",)),
    "reset_hard_untracked": (t_reset_hard_untracked, ("C13-K6",)),
    "checkout_branch_pending": (t_checkout_branch_pending, ()),
    "checkout_path": (t_checkout_path, ("C13-K7",)),
    "detached_reset_soft": (_detached("soft"), ()),
    "detached_reset_mixed": (_detached("mixed"), ()),
    "detached_reset_hard": (_detached("hard"), ()),
    "detached_sha_reset_soft": (_detached("soft", "sha"), ()),
    "detached_amend": (_detached("amend"), ()),
    "detached_stash_pop": (_detached("stash"), ()),
    "detached_cherry_pick": (_detached("cherry_pick"), ()),
    "rebase_edit_continue": (t_stopped_rebase_reset, ()),
    "pull_ff": (t_pull_ff, ()),
    "pull_rebase": (t_pull_rebase, ()),
    "pull_real_autostash": (_pull_shape("real", "autostash"), ()),
    "pull_noop_autostash": (_pull_shape("noop", "autostash"), ()),
    "pull_partial_autostash": (_pull_shape("partial", "autostash"), ()),
    "pull_noop_clean": (_pull_shape("noop", "none"), ()),
    "pull_autostash_then_human": (t_pull_autostash_then_human, ("C13-K13",)),
    "pull_autostash_then_stash": (t_pull_autostash_then_stash, ("C13-K13",)),
    "pull_real_untracked": (_pull_shape("real", "untracked"), ()),
    "pull_noop_untracked": (_pull_shape("noop", "untracked"), ("C13-K12",)),
    "pull_partial_untracked": (_pull_shape("partial", "untracked"), ()),
}


def correspondence(results):
    """model vs real: journals of both modes and the hooks git fired, one case per classified git step"""
    cases, owner = [], []
    for ri, r in enumerate(results):
        for c in r.get("cases") or []:
            if c:
                owner.append((ri, c))
                cases.append((str(len(cases)), c["cls"] + " " + c["facts"]))
    out = C.run_cases(C.driver_path("modes"), "c13-events", cases) if cases else {}
    stats = {"cases": len(cases), "by_class": {}, "mismatch": [], "wf_false": 0, "known_model": 0, "mask_checks": 0}
    for k, (ri, c) in enumerate(owner):
        line = out.get(str(k), "")
        m = parse_model_line(line)
        stats["by_class"][c["cls"]] = stats["by_class"].get(c["cls"], 0) + 1
        bad = []
        if m.get("wf") != "1":
            stats["wf_false"] += 1
            bad.append(("facts outside wf_firing", line[:60]))
        if m.get("known") == "1":
            stats["known_model"] += 1
        mw = [norm_shape(x) for x in m.get("wrapj", [])]
        mh = [norm_shape(x) for x in m.get("hooksj", [])]
        if mw != [norm_shape(x) for x in c["real_w"]]:
            bad.append(("wrapper journal", mw, c["real_w"]))
        if mh != [norm_shape(x) for x in c["real_h"]]:
            bad.append(("hooks journal", mh, c["real_h"]))
        mf = [str(x) for x in m.get("fires", []) if NOT_REFTX(str(x))]
        nf = [x for x in c["native"] if NOT_REFTX(x)]
        if mf != nf:
            bad.append(("git_fires", mf, nf))
        side = m.get("side") or []
        if side:
            stats["mask_checks"] += 1
            if (str(side[0]) == "1") != c["mask_after"]:
                bad.append(("mask after the command", str(side[0]), c["mask_after"]))
            if (str(side[1]) == "1") != ("pull_hook_state.json" in c["side_after"]):
                bad.append(("pull state after the command", str(side[1]), c["side_after"]))
        # hooks that actually ran in hooks mode: nothing maskable while the mask is on before and after
        if c["pre_mask"] and c["mask_after"]:
            ran = [x for x in c["ran_h"] if x in MANAGED and x not in ("post-checkout", "post-rewrite")]
            if ran:
                bad.append(("masked hooks ran", ran))
        if bad:
            stats["mismatch"].append({"scenario": (results[ri]["stream"], results[ri]["idx"]), "step": c["i"], "cmd": c["cmd"],
                                      "class": c["cls"], "bad": bad, "facts": c["facts"][:400]})
    return stats


def plan(tier):
    q = tier == "quick"
    items = [{"stream": "template", "template": t, "both": t in BOTH_TEMPLATES} for t in TEMPLATES]
    n = {"linear": 9, "mixed": 9, "rewrite": 7, "pull": 6, "detached": 9, "conflict": 8} if q else \
        {"linear": 220, "mixed": 300, "rewrite": 220, "pull": 150, "detached": 220, "conflict": 200}
    for stream, k in n.items():
        for j in range(k):
            items.append({"stream": stream, "both": j % 6 == 0})
    return items


def run(ctx):
    its = plan(ctx.tier)
    res = C.parallel_map(scenario, [(ctx.scratch, ctx.seed, i, o) for i, o in enumerate(its)])
    violations, obligations, known = [], [], {}
    good = [r for r in res if "error" not in r]
    for r in res:
        if "error" in r:
            violations.append(("engine error " + r["error"][-400:], {"kind": "engine-error", "error": r["error"][-2000:]}))
    clean = known_n = clean_equal = 0
    counters_only, same_mode_counters = 0, 0
    op_hist, distinct = {}, set()
    tmpl_bad, tmpl_status = [], {}
    determinism_bad, git_div, both_bad = [], [], []
    ids_equal = 0
    for r in good:
        hits = classify(r)
        real = [d for d in r["diffs"] if d["kind"] in ("note", "blame")]
        gitd = [d for d in r["diffs"] if d["kind"] == "git"]
        counters_only += sum(1 for d in r["diffs"] if d["kind"] == "counters")
        same_mode_counters += len(r.get("same_mode_counter_diffs") or [])
        ids_equal += 1 if r.get("same_ids") else 0
        for t in r.get("trace") or []:
            op_hist[t[0]] = op_hist.get(t[0], 0) + 1
        label = r.get("template") or r["stream"]
        distinct.add((label, str(r.get("trace")) if not r.get("template") else ""))
        if r["problems"]:
            determinism_bad.append(f"{label}#{r['idx']}: {json.dumps(r['problems'][0])[:300]}")
        if gitd:
            git_div.append(f"{label}#{r['idx']}: {gitd[0]['what']}")
        if "both_journal_equal" in r and (not r["both_journal_equal"] or r.get("both_diffs")):
            both_bad.append(f"{label}#{r['idx']}: journal equal {r['both_journal_equal']}, diffs {json.dumps(r.get('both_diffs'))[:200]}")
        if r.get("template"):
            exp = set(TEMPLATES[r["template"]][1])
            tmpl_status[r["template"]] = {"expected": sorted(exp), "recognised": sorted(hits), "differs": bool(real)}
            if exp != set(hits):
                tmpl_bad.append(f"{r['template']}: expected {sorted(exp)} recognised {sorted(hits)}")
        if hits:
            known_n += 1
            if real:
                for k in hits:
                    known.setdefault(k, []).append(label)
        else:
            clean += 1
            if not real:
                clean_equal += 1
        if real and not hits:
            violations.append((f"wrapper and hooks mode disagree outside every known class: {json.dumps(real[0])[:300]} "
                               f"after {str(r.get('trace'))[:300]}",
                               {"kind": "mode-difference", "stream": r["stream"], "index": r["idx"], "template": r.get("template"),
                                "trace": r.get("trace"), "differences": real[:5], "script": r.get("script")}))
    obligations.append(("monitor: same-mode determinism (files, sessions, line sets, blame) and non-interference of the tracing hooks",
                        not determinism_bad, "; ".join(determinism_bad[:3])))
    obligations.append(("monitor: both executions reach the same git history (branches, trees)", not git_div, "; ".join(git_div[:3])))
    obligations.append(("monitor: every known-class predicate recognises exactly its template", not tmpl_bad, "; ".join(tmpl_bad[:4])))
    obligations.append(("monitor: wrapper and managed hooks both installed -> the journal and the notes of wrapper mode (C13_no_double)",
                        not both_bad, "; ".join(both_bad[:3])))
    # ---- correspondence
    if ctx.model_ok:
        st = correspondence(good)
        mm = st["mismatch"]
        obligations.append(("tie:correspondence Model/Modes.v vs the new rewrite_log lines of every command in BOTH modes, "
                            "git_fires vs the hooks git fired, mask / pull side-state files",
                            not [m for m in mm if not any(b[0] == "facts outside wf_firing" for b in m["bad"])],
                            "; ".join(json.dumps(m)[:400] for m in mm[:3])))
        obligations.append(("monitor: wf_firing holds for the facts of every executed command", st["wf_false"] == 0,
                            f"{st['wf_false']} cases"))
        tb = C.run_cases(C.driver_path("modes"), "c13-tables", [("t", "x")]).get("t", "")
        want = "managed=(" + " ".join(MANAGED) + ")"
        obligations.append(("tie:tables managed / terminal / maskable hook names as used by the tracer",
                            want in tb and "terminal=(post-rewrite post-checkout)" in tb, tb[:300]))
    else:
        st = {"cases": 0, "by_class": {}, "known_model": 0}
        obligations.append(("tie:correspondence Model/Modes.v", False, "model or driver not built"))
    known_seen = []
    for k in sorted(KNOWN_DOC, key=lambda x: int(x.split("K")[1])):
        if k in known:
            known_seen.append(f"{k} {KNOWN_DOC[k][:150]} [differs in {len(known[k])} scenario(s), e.g. {known[k][0]}]")
    fields = sorted({f for r in good for f in (r.get("prompt_fields") or [])})
    return {"obligations": obligations, "violations": violations, "known_seen": known_seen,
            "searched": f"{len(good)} histories ({len(TEMPLATES)} templates + random streams), each executed in wrapper mode, "
                        f"hooks mode, hooks mode with tracing hooks (and wrapper+hooks for a sample); {clean} in no known class "
                        f"(all {clean_equal} equal), {known_n} in a known class",
            "coverage": {"evaluations": len(good) * 4, "distinct_nontrivial": len(distinct),
                         "rule": "one evaluation = one execution of a history in one mode; one history = a template or a random "
                                 "operation sequence (edits by two agent sessions and a person, commits, amend, branch/switch, "
                                 "rebase [-i], cherry-pick, reset, stash, merge --squash, path checkout/reset, pull) closed by an "
                                 "AI edit and a commit; oracle: notes of every commit reachable from a branch equivalent (files, "
                                 "sessions, line sets, prompt identity) and git-ai blame --json equal for every file at every "
                                 "branch head; distinct by (stream or template, operation trace)",
                         "samples": [{"stream": r["stream"], "trace": [t[0] for t in (r.get("trace") or [])][:12]} for r in good[-3:]],
                         "input_distribution": op_hist, "histories": len(good), "in_no_known_class": clean,
                         "in_no_known_class_and_equal": clean_equal, "in_a_known_class": known_n,
                         "commit_ids_identical_in_both_modes": ids_equal,
                         "templates": tmpl_status,
                         "prompt_fields_compared": fields,
                         "prompt_statistics_fields_not_demanded_equal": list(VOLATILE_PROMPT_FIELDS),
                         "differences_only_in_prompt_statistics": counters_only,
                         "same_mode_differences_in_prompt_statistics": same_mode_counters,
                         "model_cases": st["cases"], "model_cases_by_class": st["by_class"],
                         "model_cases_in_Known_C13": st.get("known_model", 0)}}


if __name__ == "__main__":
    import sys
    import time
    stream = sys.argv[1] if len(sys.argv) > 1 else "mixed"
    n = int(sys.argv[2]) if len(sys.argv) > 2 and sys.argv[2].isdigit() else 8
    base = C.scratch_dir()
    t0 = time.time()
    if stream == "template":
        names = sys.argv[2:] or list(TEMPLATES)
        out = C.parallel_map(scenario, [(base, 20260930, i, {"stream": "template", "template": t}) for i, t in enumerate(names)])
    else:
        out = C.parallel_map(scenario, [(base, 20260930, i, {"stream": stream}) for i in range(n)])
    print("time", round(time.time() - t0, 1))
    for r_ in out:
        if "error" in r_:
            print("ERROR", r_["error"][-2500:])
            continue
        real = [d for d in r_["diffs"] if d["kind"] not in ("info", "counters")]
        hits = classify(r_)
        if r_.get("template"):
            exp = set(TEMPLATES[r_["template"]][1])
            print("TEMPLATE", r_["template"], "expected", sorted(exp), "recognised", sorted(hits),
                  "OK" if exp == set(hits) else "PREDICATE-MISMATCH", "differs" if real else "agrees")
        print("KNOWN" if hits else "clean", sorted(hits), r_["stream"], r_["idx"], "commits", r_["n_commits"], "same_ids", r_["same_ids"], "script", r_["script_len"],
              "DIFFS" if real else "same", len(real), "problems", len(r_["problems"]), "side_end", r_["side_end"])
        print("    ", [t[0] if t[0] != "edit" else "e" for t in r_["trace"]])
        for k_, v_ in hits.items():
            print("     K", k_, v_[:2])
        for d in real[:3]:
            print("     D", json.dumps(d)[:400])
        for p in r_["problems"][:2]:
            print("     P", json.dumps(p)[:600])
    st = correspondence([r_ for r_ in out if "error" not in r_])
    print("correspondence", st["cases"], st["by_class"], "wf_false", st["wf_false"], "mismatches", len(st["mismatch"]))
    for m_ in st["mismatch"][:12]:
        print("   M", json.dumps(m_)[:700])
    shutil.rmtree(base, ignore_errors=True)




