"""C13 — wrapper mode and git-hooks mode record the same authorship.

Layers
 (1) Coq: Model/Modes.v — both front ends as event translators into the same core
     (wrap_events from git_handlers.rs + hooks/*.rs; git_fires = which hooks git 2.39 fires;
     hook_events following run_managed_hook with the side-state files explicit).  Theorems C13_*.
 (2) system level: one history is generated once (wrapper mode, tracing user hooks installed through
     the product's own forwarding feature = the facts about git's hook firing), then the recorded
     script is replayed into fresh worlds: wrapper, hooks (plain git + `git-ai git-hooks ensure`),
     hooks+trace and, for a sample, both.  ORACLE: notes of every commit reachable from a branch are
     equivalent and `git-ai blame --json` of every file at every branch head is equal.
     CORRESPONDENCE: the new rewrite_log lines of every command, in either mode, against the model's
     prediction for the command class and the facts; the hooks git fired against git_fires.
Known classes = decidable predicates on the command sequence + git-level facts (see KNOWN_DOC).
"""
import json
import os
import re
import shlex
import shutil
import subprocess

from . import common as C
from .gitsim import Sim, parse_note, REALGIT
from .world import World, SEQ_EDITOR, TOOL

GEN_FILES = ["GenModes"]
DRIVERS = ["modes"]
THEOREMS = []          # filled below
TRACE_HOOKS = ["pre-commit", "prepare-commit-msg", "post-commit", "pre-rebase", "post-checkout", "post-merge",
               "post-rewrite", "reference-transaction", "pre-merge-commit", "post-applypatch", "pre-push"]
MANAGED = ["pre-commit", "prepare-commit-msg", "post-commit", "pre-rebase", "post-checkout", "post-merge", "pre-push",
           "post-rewrite", "reference-transaction"]

TRACE_SCRIPT = r'''#!/bin/sh
D="${GIT_DIR:-.git}"
{
  printf 'H %%s' "$(basename "$0")"
  for a in "$@"; do printf ' [%%s]' "$a"; done
  printf ' RA=[%%s] rb=%%s cp=%%s sq=%%s te=%%s\n' "$GIT_REFLOG_ACTION" \
    "$( { [ -d "$D/rebase-merge" ] || [ -d "$D/rebase-apply" ]; } && echo 1 || echo 0)" \
    "$( [ -f "$D/CHERRY_PICK_HEAD" ] && echo 1 || echo 0)" \
    "$( [ -d "$D/sequencer" ] && echo 1 || echo 0)" \
    "$( [ -f "$D/rebase-merge/git-rebase-todo" ] && ! grep -q '[^[:space:]]' "$D/rebase-merge/git-rebase-todo" && echo 1 || echo 0)"
  case "$(basename "$0")" in
    post-rewrite|reference-transaction|pre-push) sed 's/^/I /' ;;
  esac
} >> %s
exit 0
'''


# ---------------------------------------------------------------------------------------------
# engine: a Sim that can run in wrapper / hooks / both mode, with optional tracing user hooks
# ---------------------------------------------------------------------------------------------
class MSim(Sim):
    """mode: wrapper (GIT_AI=git through the binary) | hooks (plain git + managed repository hooks) |
    both (wrapper AND managed hooks).  trace=True installs a user hook directory as the GLOBAL
    core.hooksPath before anything else: in wrapper mode git runs these hooks itself (the native firing),
    in hooks mode git-ai forwards every hook it receives to them (ForwardMode::GlobalFallback)."""

    def __init__(self, base, name, mode="wrapper", trace=False):
        super().__init__(base, name, mode=mode)
        self.trace = trace
        self.tick = True
        self.tracefile = os.path.join(self.base, "trace.log")
        if trace:
            d = os.path.join(self.base, "tracehooks")
            os.makedirs(d, exist_ok=True)
            for h in TRACE_HOOKS:
                p = os.path.join(d, h)
                with open(p, "w") as f:
                    f.write(TRACE_SCRIPT % shlex.quote(self.tracefile))
                os.chmod(p, 0o755)
            with open(os.path.join(self.home, ".gitconfig"), "a") as f:
                f.write("[core]\n\thooksPath = %s\n" % d)
        os.makedirs(os.path.join(self.home, ".git-ai"), exist_ok=True)
        with open(os.path.join(self.home, ".git-ai", "config.json"), "w") as f:
            json.dump(self.config_patch, f)

    def env(self, extra=None):
        e = super().env(extra)
        e.pop("GIT_AI_SKIP_MANAGED_HOOKS_INSTALL", None)
        if self.mode in ("hooks", "both"):
            e["GIT_AI_GLOBAL_GIT_HOOKS"] = "true"
        return e

    def _run(self, argv, cwd=None, env=None, stdin=None, timeout=120):
        res = super()._run(argv, cwd=cwd, env=env, stdin=stdin, timeout=timeout)
        if not self.tick:
            self.clock -= 1          # observation calls do not advance the pinned clock
        return res

    def git(self, *args, cwd=None, env_extra=None, stdin=None):
        if self.mode in ("wrapper", "both"):
            return self._run([self.binary] + list(args), cwd=cwd,
                             env=self.env(dict({"GIT_AI": "git"}, **(env_extra or {}))), stdin=stdin)
        return self._run([REALGIT] + list(args), cwd=cwd, env=self.env(env_extra), stdin=stdin)

    def quiet(self):
        return _Quiet(self)

    def init(self, files=None):
        os.makedirs(self.repo, exist_ok=True)
        self.realgit("init", "-q", ".")
        if self.mode in ("hooks", "both"):
            with self.quiet():
                rc, out, err = self.gitai("git-hooks", "ensure")
            if rc != 0:
                raise RuntimeError("git-hooks ensure failed: " + out + err)
        for p, t in (files or {}).items():
            self.write(p, t)
        if files:
            self.realgit("add", "-A")
            self.git("commit", "-q", "-m", "base")
        return self

    def mark(self, text):
        if self.trace:
            with open(self.tracefile, "a") as f:
                f.write("M " + text + "\n")

    def journal(self):
        """rewrite_log oldest first"""
        p = os.path.join(self.repo, ".git", "ai", "rewrite_log")
        if not os.path.exists(p):
            return []
        out = []
        for l in open(p):
            l = l.strip()
            if l:
                try:
                    out.append(json.loads(l))
                except Exception:
                    out.append({"unparseable": l[:80]})
        return out[::-1]

    def side_files(self):
        d = os.path.join(self.repo, ".git", "ai")
        names = ["rebase_hook_mask_state.json", "stash_ref_tx_state.json", "cherry_pick_batch_state.json",
                 "pull_hook_state.json", "cherry_pick_hook_state"]
        return [n for n in names if os.path.exists(os.path.join(d, n))]

    def masked_hooks(self):
        d = os.path.join(self.repo, ".git", "ai", "hooks")
        return sorted(f for f in os.listdir(d) if f.endswith(".gitai-masked")) if os.path.isdir(d) else []


class _Quiet:
    def __init__(self, sim):
        self.sim = sim

    def __enter__(self):
        self.old = self.sim.tick
        self.sim.tick = False

    def __exit__(self, *a):
        self.sim.tick = self.old


class GWorld(World):
    """World whose recorded primitives are the only calls that advance the clock (so that a replay of
    the script, which consists of exactly these calls, produces identical commit ids), plus the
    command shapes World lacks (path checkout, path reset, stash apply/drop, pull)."""

    def __init__(self, sim, rng):
        super().__init__(sim, rng)
        sim.tick = False
        self.has_remote = False

    def _ticked(self, fn, *a, **k):
        self.sim.tick = True
        try:
            return fn(*a, **k)
        finally:
            self.sim.tick = False

    def git(self, *args, env_extra=None, stdin=None):
        self.sim.mark("git " + " ".join(args))
        return self._ticked(super().git, *args, env_extra=env_extra, stdin=stdin)

    def realgit(self, *args):
        self.sim.mark("realgit " + " ".join(args))
        return self._ticked(super().realgit, *args)

    def cp_h(self, paths):
        return self._ticked(super().cp_h, paths)

    def cp_ai(self, s, paths):
        return self._ticked(super().cp_ai, s, paths)

    def worktree_files(self):
        # files under up/ belong to the upstream: local edits there would make every pull conflict
        return [p for p in super().worktree_files() if not p.startswith("up/")]

    # ---- extra command shapes
    def op_checkout_path(self):
        files = self.tracked()
        if not files:
            return None
        p = self.r.pick(files)
        form = self.r.pick([["checkout", "--", p], ["checkout", "HEAD", "--", p]])
        rc, _, _ = self.git(*form)
        self.trace.append(("checkout_path", p, rc))
        return rc

    def op_reset_path(self):
        files = self.tracked()
        if not files:
            return None
        if self.r.chance(1, 2):
            self.op_edit()
        self.realgit("add", "-A")
        p = self.r.pick(files)
        rc, _, _ = self.git("reset", "-q", "--", p)
        self.trace.append(("reset_path", p, rc))
        return rc

    def op_stash_apply(self):
        if self.stash_depth == 0:
            return None
        if not self._clean():
            self.op_commit()
        rc, _, _ = self.git("stash", "apply")
        self.trace.append(("stash_apply", rc))
        if rc != 0:
            self._resolve_conflict()
        return rc

    def op_stash_drop(self):
        if self.stash_depth == 0:
            return None
        rc, _, _ = self.git("stash", "drop")
        self.stash_depth -= 1
        self.trace.append(("stash_drop", rc))
        return rc

    def setup_remote(self):
        """a sibling clone `../up` is the upstream of main (relative paths only: the script is replayed elsewhere)"""
        self.realgit("-c", "core.hooksPath=/dev/null", "clone", "-q", ".", "../up")
        self.realgit("remote", "add", "origin", "../up")
        self.realgit("-c", "core.hooksPath=/dev/null", "fetch", "-q", "origin")
        self.realgit("branch", "-q", "--set-upstream-to=origin/main", "main")
        self.has_remote = True
        self.up_n = 0

    def upstream_commit(self):
        """a person commits upstream with plain git (own file, so a later pull never conflicts)"""
        self.up_n += 1
        path = f"../up/up/u{self.up_n % 2}.txt"
        old = self.sim.read(path) or ""
        self.write(path, old + self.fresh("H") + "\n")
        self.realgit("-C", "../up", "-c", "core.hooksPath=/dev/null", "add", "-A")
        self.realgit("-C", "../up", "-c", "core.hooksPath=/dev/null", "commit", "-q", "-m", f"up{self.up_n}")

    def op_pull(self, rebase):
        if not self.has_remote or self.cur != "main":
            return None
        self.upstream_commit()
        if rebase:
            if self.r.chance(2, 3):
                self.op_edit()
            if not self._clean():
                self.op_commit()
            rc, _, _ = self.git("pull", "--rebase", "-q", env_extra={"GIT_EDITOR": "true"})
            state = self._finish_sequencer("rebase", rc) if rc != 0 else "done"
            self.trace.append(("pull_rebase", rc, state))
        else:
            # fast-forward only: local main must not be ahead of origin/main
            rc0, out, _ = self.sim.realgit("rev-list", "--count", "origin/main..main")
            if out.strip() != "0":
                return None
            rc, _, _ = self.git("pull", "--ff-only", "-q")
            self.trace.append(("pull_ff", rc))
        return rc


def replay(script, sim, observer=None):
    """re-execute a recorded script (see world.replay) with per-step observation"""
    for k, st in enumerate(script):
        if st[0] == "write":
            sim.write(st[1], st[2])
        elif st[0] == "git":
            sim.mark("git " + " ".join(st[1]))
            before = observer.before(sim, k, st) if observer else None
            res = sim.git(*st[1], env_extra=st[2])
            if observer:
                observer.after(sim, k, st, res, before)
        elif st[0] == "realgit":
            sim.mark("realgit " + " ".join(st[1]))
            sim.realgit(*st[1])
        elif st[0] == "cp_h":
            sim.checkpoint_human(st[1])
        elif st[0] == "cp_ai":
            sim.checkpoint_ai(st[1], st[2], tool=TOOL)


# ---------------------------------------------------------------------------------------------
# observation of a finished world
# ---------------------------------------------------------------------------------------------
VOLATILE_NOTE_KEYS = ("git_ai_version",)


def _q(sim, *args):
    with sim.quiet():
        rc, out, _ = sim.realgit(*args)
    return out if rc == 0 else ""


def snapshot(sim):
    """{branches: {name: [shas oldest first]}, notes: {sha: canonical}, blame: {branch: {path: {line: hash}}},
        trees: {branch: tree}}"""
    snap = {"branches": {}, "notes": {}, "blame": {}, "trees": {}, "raw": {}}
    names = [b for b in _q(sim, "for-each-ref", "--format=%(refname:short)", "refs/heads").split("\n") if b]
    for b in sorted(names):
        shas = [s for s in _q(sim, "rev-list", "--reverse", b).split("\n") if s]
        snap["branches"][b] = shas
        snap["trees"][b] = _q(sim, "rev-parse", b + "^{tree}").strip()
        with sim.quiet():
            bl = {}
            for p in sim.ls_files_at(b):
                x = sim.blame(p, rev=b)
                bl[p] = None if x is None else {str(k): v for k, v in sorted(x.items())}
            snap["blame"][b] = bl
    seen = set()
    for shas in snap["branches"].values():
        for s in shas:
            if s in seen:
                continue
            seen.add(s)
            with sim.quiet():
                raw = sim.note_raw(s)
            snap["raw"][s] = raw
            snap["notes"][s] = canon_note(raw)
    return snap


def canon_note(raw):
    if raw is None:
        return None
    n = parse_note(raw)
    if not n["ok"]:
        return {"unparseable": raw[:200]}
    files = {p: {h: sorted(set(ls)) for h, ls in hs.items()} for p, hs in n["files"].items()}
    prompts = {}
    for h, rec in n["prompts"].items():
        prompts[h] = json.loads(json.dumps(rec, sort_keys=True))
    return {"files": files, "prompts": prompts, "base": n["base"]}


VOLATILE_PROMPT_FIELDS = ("total_additions", "total_deletions", "accepted_lines", "overriden_lines", "human_author")


def note_diff(a, b):
    """-> (kind, text): kind '' when equivalent; 'content' when files / sessions / line sets / prompt identity
    (agent, messages, any other field) differ; 'counters' when ONLY the statistics of a prompt record differ.
    The statistics fields (VOLATILE_PROMPT_FIELDS) are not a function of the history even within ONE mode: the
    same script run twice through the wrapper gives different values after an amend of a rebased commit
    (which of several earlier records of the session is carried over depends on map iteration order) — so they
    are compared, counted and reported, but cannot be demanded equal across modes."""
    if a is None or b is None:
        return ("", "") if a is b else ("content", "note missing in %s" % ("wrapper" if a is None else "hooks"))
    if "unparseable" in a or "unparseable" in b:
        return ("", "") if a == b else ("content", "unparseable note")
    if a["files"] != b["files"]:
        fa, fb = a["files"], b["files"]
        if set(fa) != set(fb):
            return "content", "file sets differ: wrapper %s hooks %s" % (sorted(fa), sorted(fb))
        return "content", "line sets differ: " + "; ".join(f"{p}: wrapper {fa[p]} hooks {fb[p]}" for p in fa if fa[p] != fb[p])[:300]
    if set(a["prompts"]) != set(b["prompts"]):
        return "content", "prompt sets differ: wrapper %s hooks %s" % (sorted(a["prompts"]), sorted(b["prompts"]))
    if a["base"] != b["base"]:
        return "content", "base_commit_sha differs"
    vol = None
    for h in a["prompts"]:
        ra, rb = a["prompts"][h], b["prompts"][h]
        if ra != rb:
            ks = sorted(k for k in set(ra) | set(rb) if ra.get(k) != rb.get(k))
            txt = f"prompt record {h} differs in {ks}: wrapper " + json.dumps({k: ra.get(k) for k in ks})[:120] + \
                  " hooks " + json.dumps({k: rb.get(k) for k in ks})[:120]
            if any(k not in VOLATILE_PROMPT_FIELDS for k in ks):
                return "content", txt
            vol = vol or txt
    return ("counters", vol) if vol else ("", "")


def compare(sw, sh):
    """oracle: list of differences between the wrapper snapshot and the hooks snapshot"""
    diffs = []
    if set(sw["branches"]) != set(sh["branches"]):
        diffs.append({"kind": "git", "what": "branch sets differ"})
        return diffs
    same_ids = sw["branches"] == sh["branches"]
    for b in sw["branches"]:
        cw, ch = sw["branches"][b], sh["branches"][b]
        if len(cw) != len(ch) or sw["trees"][b] != sh["trees"][b]:
            diffs.append({"kind": "git", "what": f"branch {b}: different history or tree (git-level divergence)"})
            continue
        for pos, (a, c) in enumerate(zip(cw, ch)):
            kind, d = note_diff(sw["notes"].get(a), sh["notes"].get(c))
            if kind and not any(x.get("commit") == a for x in diffs):
                diffs.append({"kind": "note" if kind == "content" else "counters", "branch": b, "position": pos,
                              "commit": a, "what": d})
        if sw["blame"][b] != sh["blame"][b]:
            for p in sorted(set(sw["blame"][b]) | set(sh["blame"][b])):
                if sw["blame"][b].get(p) != sh["blame"][b].get(p):
                    diffs.append({"kind": "blame", "branch": b, "path": p, "wrapper": sw["blame"][b].get(p),
                                  "hooks": sh["blame"][b].get(p)})
    if not same_ids:
        diffs.append({"kind": "info", "what": "commit ids differ between the modes (compared by branch position)"})
    return diffs


# ---------------------------------------------------------------------------------------------
# trace parsing: per script step, which hooks git fired (name, args, env facts, stdin lines)
# ---------------------------------------------------------------------------------------------
def parse_trace(path):
    """-> list of segments {"cmd": str, "hooks": [ {name, args, ra, rb, cp, sq, stdin:[...]} ]}"""
    segs = [{"cmd": "(init)", "hooks": []}]
    if not os.path.exists(path):
        return segs
    cur = None
    for l in open(path, errors="replace"):
        l = l.rstrip("\n")
        if l.startswith("M "):
            segs.append({"cmd": l[2:], "hooks": []})
            cur = None
        elif l.startswith("H "):
            m = re.match(r"^H (\S+)((?: \[[^\]]*\])*) RA=\[(.*)\] rb=(\d) cp=(\d) sq=(\d) te=(\d)$", l)
            if not m:
                continue
            cur = {"name": m.group(1), "args": re.findall(r"\[([^\]]*)\]", m.group(2)), "ra": m.group(3),
                   "rb": m.group(4) == "1", "cp": m.group(5) == "1", "sq": m.group(6) == "1", "te": m.group(7) == "1",
                   "stdin": []}
            segs[-1]["hooks"].append(cur)
        elif l.startswith("I ") and cur is not None:
            cur["stdin"].append(l[2:].split())
    return segs


def git_segments(segs):
    return [s for s in segs if s["cmd"].startswith("git ")]


# ---------------------------------------------------------------------------------------------
# scenario
# ---------------------------------------------------------------------------------------------
STREAMS = {
    # the common alphabet, weighted towards what people do all day
    "mixed": [(9, "edit"), (6, "commit"), (2, "commit_partial"), (2, "amend"), (2, "branch"), (3, "switch"),
              (2, "rebase"), (1, "rebase_i"), (2, "cherry_pick"), (2, "reset"), (2, "stash"), (2, "stash_pop"),
              (1, "merge_squash"), (1, "checkout_path"), (1, "reset_path"), (1, "stash_apply"), (1, "stash_drop")],
    # linear work: commit / amend / reset / stash / switch (no sequencer)
    "linear": [(9, "edit"), (6, "commit"), (3, "commit_partial"), (3, "amend"), (2, "branch"), (3, "switch"),
               (3, "reset"), (2, "stash"), (3, "stash_pop"), (1, "merge_squash")],
    # history rewriting
    "rewrite": [(8, "edit"), (6, "commit"), (2, "branch"), (3, "switch"), (4, "rebase"), (3, "rebase_i"),
                (4, "cherry_pick"), (1, "amend"), (1, "merge_squash")],
    # pull (needs the sibling upstream)
    "pull": [(8, "edit"), (5, "commit"), (3, "pull_ff"), (3, "pull_rebase"), (1, "amend"), (1, "stash"), (1, "stash_pop")],
}


def run_ops(w, r, stream, n_ops):
    for _ in range(n_ops):
        op = r.weighted(STREAMS[stream])
        if op == "edit":
            w.op_edit()
        elif op == "commit":
            w.op_commit()
        elif op == "commit_partial":
            w.op_commit_partial()
        elif op == "amend":
            w.op_amend()
        elif op == "branch":
            w.op_branch()
        elif op == "switch":
            w.op_switch()
        elif op == "rebase":
            w.op_rebase()
        elif op == "rebase_i":
            w.op_rebase(interactive=True)
        elif op == "cherry_pick":
            w.op_cherry_pick()
        elif op == "reset":
            w.op_reset()
        elif op == "stash":
            w.op_stash()
        elif op == "stash_pop":
            w.op_stash_pop()
        elif op == "merge_squash":
            w.op_merge_squash()
        elif op == "checkout_path":
            w.op_checkout_path()
        elif op == "reset_path":
            w.op_reset_path()
        elif op == "stash_apply":
            w.op_stash_apply()
        elif op == "stash_drop":
            w.op_stash_drop()
        elif op == "pull_ff":
            w.op_pull(False)
        elif op == "pull_rebase":
            w.op_pull(True)
    # materialise whatever is pending on the current branch
    w.op_edit(actor=r.pick(["s1", "s2"]))
    w.op_commit("final")


def initial_files(r, w):
    files = {}
    for n in r.shuffle(["a.txt", "src/b.rs", "c d.py"])[:r.range(2, 3)]:
        files[n] = "".join(w_fresh(w, "H") + "\n" for _ in range(r.range(4, 8)))
    return files


def w_fresh(w, author):
    return w.fresh(author)


class Observer:
    """per `git` step: journal growth and side-state files (hooks mode) — read-only, off the clock"""

    def __init__(self):
        self.steps = []

    def before(self, sim, k, st):
        self._depth0 = len([l for l in _q(sim, "stash", "list", "--format=%H").split("\n") if l]) \
            if st[1][:1] == ["stash"] else None
        return (len(sim.journal()), _q(sim, "rev-parse", "-q", "--verify", "HEAD").strip())

    def after(self, sim, k, st, res, before_):
        before, head0 = before_
        j = sim.journal()
        self.steps.append({"k": k, "args": st[1], "rc": res[0], "new": j[before:] if before <= len(j) else j,
                           "head0": head0, "head1": _q(sim, "rev-parse", "-q", "--verify", "HEAD").strip(),
                           "out": (res[1] + res[2])[-300:], "stash_depth0": self._depth0,
                           "dirty1": bool(_q(sim, "status", "--porcelain", "--untracked-files=no").strip())
                           if st[1][:1] in (["stash"], ["reset"]) else None,
                           "backward": (subprocess.run([REALGIT, "merge-base", "--is-ancestor", "HEAD", head0], cwd=sim.repo,
                                                       env=sim.env(), capture_output=True).returncode == 0)
                           if st[1][:1] == ["reset"] and head0 else None,
                           "side": sim.side_files() if sim.mode != "wrapper" else [],
                           "masked": sim.masked_hooks() if sim.mode != "wrapper" else []})


def scenario(args):
    base, seed, idx, opts = args
    stream = opts["stream"]
    r = C.Rng(seed).fork(f"c13-{stream}-{idx}")
    res = {"idx": idx, "stream": stream, "diffs": [], "problems": []}
    sims = []
    try:
        G = MSim(base, f"{stream}{idx}-g", mode="wrapper", trace=True)
        sims.append(G)
        w0 = World.__new__(GWorld)        # fresh() needs the counters only
        World.__init__(w0, G, r)
        files = initial_files(r, w0)
        G.init(files)
        w = GWorld(G, r)
        w.author_of, w.counter = w0.author_of, w0.counter
        if stream == "pull":
            w.setup_remote()
        run_ops(w, r, stream, opts.get("n_ops") or r.range(6, 14))
        res["trace"] = w.trace
        res["script_len"] = len(w.script)
        res["script"] = w.script if opts.get("keep_script") else None
        out = {}
        for tag, mode, tr in (("W", "wrapper", False), ("H", "hooks", False), ("HT", "hooks", True)) + \
                ((("B", "both", False),) if opts.get("both") else ()):
            s = MSim(base, f"{stream}{idx}-{tag.lower()}", mode=mode, trace=tr)
            sims.append(s)
            s.init(files)
            ob = Observer()
            replay(w.script, s, ob)
            out[tag] = (s, ob)
        snaps = {t: snapshot(s) for t, (s, _) in out.items()}
        snaps["G"] = snapshot(G)
        res["same_ids"] = snaps["W"]["branches"] == snaps["H"]["branches"]
        res["n_commits"] = len(snaps["W"]["notes"])
        # determinism / non-interference of the tracing hooks
        for a, b, what in (("G", "W", "generation (wrapper, traced) vs replay (wrapper)"),
                           ("H", "HT", "hooks vs hooks with tracing user hooks")):
            d = [x for x in compare(snaps[a], snaps[b]) if x["kind"] not in ("info", "counters")]
            if d:
                res["problems"].append({"what": "non-determinism or tracing interference: " + what, "detail": d[:2]})
            res.setdefault("same_mode_counter_diffs", []).extend(
                x for x in compare(snaps[a], snaps[b]) if x["kind"] == "counters")
        res["diffs"] = compare(snaps["W"], snaps["H"])
        if "B" in out:
            jb = [shape_of(e) for e in out["B"][0].journal()]
            jw = [shape_of(e) for e in out["W"][0].journal()]
            res["both_journal_equal"] = jb == jw
            res["both_diffs"] = [x for x in compare(snaps["W"], snaps["B"]) if x["kind"] not in ("info", "counters")]
        res["segs_native"] = git_segments(parse_trace(G.tracefile))
        res["segs_hooks"] = git_segments(parse_trace(out["HT"][0].tracefile))
        res["steps_W"] = out["W"][1].steps
        res["steps_H"] = out["H"][1].steps
        res["journal_W"] = out["W"][0].journal()
        res["journal_H"] = out["H"][0].journal()
        res["side_end"] = out["H"][0].side_files()
        res["prompt_fields"] = sorted({k for n in snaps["W"]["notes"].values() if n and "prompts" in n
                                       for rec in n["prompts"].values() for k in rec})
        return res
    finally:
        for s in sims:
            shutil.rmtree(s.base, ignore_errors=True)


def shape_of(ev):
    """a rewrite_log line modulo commit ids: (kind, structural fields)"""
    if not isinstance(ev, dict) or not ev:
        return ["?"]
    k = next(iter(ev))
    d = ev[k] if isinstance(ev[k], dict) else {}
    if k == "commit":
        return ["commit", "base" if d.get("base_commit") else "nobase"]
    if k == "commit_amend":
        return ["commit_amend"]
    if k == "rebase_start":
        return ["rebase_start"]
    if k == "rebase_complete":
        return ["rebase_complete", len(d.get("original_commits", [])), len(d.get("new_commits", []))]
    if k == "rebase_abort":
        return ["rebase_abort"]
    if k == "cherry_pick_start":
        return ["cherry_pick_start", len(d.get("source_commits", []))]
    if k == "cherry_pick_complete":
        return ["cherry_pick_complete", len(d.get("source_commits", [])), len(d.get("new_commits", []))]
    if k == "cherry_pick_abort":
        return ["cherry_pick_abort"]
    if k == "reset":
        return ["reset", d.get("kind")]
    if k == "merge_squash":
        return ["merge_squash"]
    return [k]


# ---------------------------------------------------------------------------------------------
# known classes: decidable predicates on (command sequence, git-level facts)
# ---------------------------------------------------------------------------------------------
KNOWN_DOC = {
    "C13-K1": "hook mask leak: a rebase that git ends without firing `post-rewrite rebase` (--abort, fast-forward, every "
              "commit dropped/skipped) leaves pre-commit/post-commit/reference-transaction/post-merge masked in hooks mode "
              "until the next checkout or rewrite: commits in that window get no note, stash/reset/squash are not seen",
    "C13-K2": "rebase whose post-rewrite mapping is not the positional list the wrapper computes (rebase -i drop / squash / "
              "fixup, commits skipped as already upstream): the two RebaseComplete events carry different commit lists",
    "C13-K3": "git commit / commit --amend while a rebase is stopped (edit, conflict): the wrapper runs its commit hooks, "
              "hooks mode ignores pre-commit/post-commit/post-rewrite amend during a rebase",
    "C13-K4": "cherry-pick of two or more commits: the wrapper rewrites them as one batch (content replay over the whole "
              "range), hooks mode commit by commit",
    "C13-K5": "cherry-pick stopped by a conflict and concluded with `git commit`: the wrapper records a plain commit (no "
              "attribution carried over), hooks mode a cherry-pick",
    "C13-K6": "reset that does not move HEAD backwards (reset --hard [HEAD], forward/unrelated target, path reset): only the "
              "wrapper clears / rebuilds the pending attribution; hooks mode sees no qualifying reference-transaction",
    "C13-K7": "path checkout (`git checkout [<tree>] -- <path>`): only the wrapper drops the pending attribution of the path "
              "(the post-checkout hook carries no pathspec)",
    "C13-K8": "stash commands that hooks mode must infer from refs/stash reference-transactions: apply (no ref change) and pop "
              "with two or more entries (git 2.39 rewrites refs/stash through the reflog, no hook) are invisible — the saved "
              "attribution is not restored; a drop with uncommitted changes (e.g. after a conflicting pop) is taken for a pop",
    "C13-K9": "git merge --squash that is already up to date: git fires no post-merge; the wrapper still records a "
              "MergeSquash event and deletes the pending attribution of HEAD",
}


def classify(res):
    """-> {class id: [step descriptions]} from the script's git steps, the native hook trace and the wrapper observer"""
    hits = {}

    def hit(k, what):
        hits.setdefault(k, []).append(what)

    segs = res["segs_native"]
    steps = res["steps_W"]
    n = min(len(segs), len(steps))
    mask = False
    for i in range(n):
        seg, st = segs[i], steps[i]
        a = st["args"]
        cmd = a[0] if a else ""
        names = [h["name"] for h in seg["hooks"]]
        # ---- K1: the mask state machine of hooks mode driven by git's native firing
        for h in seg["hooks"]:
            nm = h["name"]
            if nm == "pre-rebase":
                mask = True
            elif nm == "post-rewrite" and h["args"][:1] == ["rebase"]:
                mask = False
            elif nm in ("post-checkout", "post-rewrite"):
                ra = h["ra"].lower()
                if ("rebase (abort)" in ra) or ("rebase --abort" in ra) or (mask and not h["rb"]) or \
                        (nm == "post-checkout" and ra.startswith("pull") and h["rb"] and h["te"]):
                    mask = False
            elif nm in MANAGED and mask and not h["rb"]:
                if nm in ("pre-commit", "post-commit", "post-merge") or \
                        (nm == "reference-transaction" and h["args"][:1] == ["committed"] and
                         (any(len(x) >= 3 and x[2] == "refs/stash" for x in h["stdin"]) or
                          (cmd == "reset" and any(len(x) >= 3 and x[2] == "HEAD" for x in h["stdin"])))):
                    hit("C13-K1", f"step {i} `git {' '.join(a[:3])}`: {nm} fires while the mask is on")
        # ---- K2
        for h in seg["hooks"]:
            if h["name"] == "post-rewrite" and h["args"][:1] == ["rebase"]:
                olds = [x[0] for x in h["stdin"] if len(x) >= 2]
                news = [x[1] for x in h["stdin"] if len(x) >= 2]
                rc_ = [e["rebase_complete"] for e in st["new"] if "rebase_complete" in e]
                if not rc_ or rc_[0]["original_commits"] != olds or rc_[0]["new_commits"] != news:
                    hit("C13-K2", f"step {i} `git {' '.join(a[:3])}`: post-rewrite maps {len(olds)}->{len(set(news))}, "
                                  f"wrapper {[(len(x['original_commits']), len(x['new_commits'])) for x in rc_]}")
        # ---- K3 / K5
        if cmd == "commit":
            if any(h["rb"] for h in seg["hooks"] if h["name"] in ("pre-commit", "post-commit", "prepare-commit-msg")):
                hit("C13-K3", f"step {i}: commit while a rebase is stopped")
            if any(h["cp"] for h in seg["hooks"] if h["name"] in ("pre-commit", "prepare-commit-msg")):
                hit("C13-K5", f"step {i}: commit concludes a cherry-pick")
        # ---- K4
        if cmd == "cherry-pick":
            k0 = i
            while k0 > 0 and steps[k0]["args"][:1] == ["cherry-pick"] and steps[k0]["args"][1:2] and \
                    steps[k0]["args"][1] in ("--continue", "--skip", "--abort"):
                k0 -= 1
            made = sum(1 for j in range(k0, i + 1) for h in segs[j]["hooks"] if h["name"] == "post-commit")
            if made >= 2:
                hit("C13-K4", f"step {i}: cherry-pick operation made {made} commits")
        # ---- K6
        if cmd == "reset" and st["rc"] == 0:
            if "--" in a:
                hit("C13-K6", f"step {i}: path reset")
            elif st["head0"] == st["head1"]:
                hit("C13-K6", f"step {i}: reset without moving HEAD")
            elif not st.get("backward", True):
                hit("C13-K6", f"step {i}: reset forwards / to an unrelated commit")
        # ---- K7
        if cmd == "checkout" and "--" in a:
            hit("C13-K7", f"step {i}: path checkout")
        # ---- K8
        if cmd == "stash":
            sub = a[1] if len(a) > 1 and not a[1].startswith("-") else "push"
            if sub == "apply":
                hit("C13-K8", f"step {i}: stash apply")
            elif sub == "pop" and st["rc"] != 0:
                hit("C13-K8", f"step {i}: stash pop stopped by a conflict (the entry stays, a later drop looks like a pop)")
            elif sub == "pop" and (st.get("stash_depth0") or 0) >= 2:
                hit("C13-K8", f"step {i}: stash pop with {st.get('stash_depth0')} entries (no reference-transaction is fired)")
            elif sub == "drop" and st["rc"] == 0 and st.get("dirty1"):
                hit("C13-K8", f"step {i}: stash drop with uncommitted changes (hooks mode takes it for a pop)")
        # ---- K9
        if cmd == "merge" and "--squash" in a and st["rc"] == 0 and "post-merge" not in names:
            hit("C13-K9", f"step {i}: merge --squash, nothing to merge")
    return hits


if __name__ == "__main__":
    import sys
    import time
    stream = sys.argv[1] if len(sys.argv) > 1 else "mixed"
    n = int(sys.argv[2]) if len(sys.argv) > 2 else 8
    base = C.scratch_dir()
    t0 = time.time()
    out = C.parallel_map(scenario, [(base, 20260934, i, {"stream": stream}) for i in range(n)])
    print("time", round(time.time() - t0, 1))
    for r_ in out:
        if "error" in r_:
            print("ERROR", r_["error"][-2500:])
            continue
        real = [d for d in r_["diffs"] if d["kind"] not in ("info", "counters")]
        hits = classify(r_)
        print("KNOWN" if hits else "clean", sorted(hits), r_["stream"], r_["idx"], "commits", r_["n_commits"], "same_ids", r_["same_ids"], "script", r_["script_len"],
              "DIFFS" if real else "same", len(real), "problems", len(r_["problems"]), "side_end", r_["side_end"])
        print("    ", [t[0] if t[0] != "edit" else "e" for t in r_["trace"]])
        for k_, v_ in hits.items():
            print("     K", k_, v_[:2])
        for d in real[:3]:
            print("     D", json.dumps(d)[:400])
        for p in r_["problems"][:2]:
            print("     P", json.dumps(p)[:600])
    shutil.rmtree(base, ignore_errors=True)


