"""C20 — agent hook ingestion never fails the agent and never escapes the repository.

System level, against the real binary (C.GITAI):
  A  decoder correspondence: JSON *values* for agent-v1 / claude / codex / ai_tab -> Model/Ingest.v verdict
     (accepted / rejected) vs the binary's behaviour class (preset error on stderr or not);
  B  payload matrix: every preset x (valid shapes, wrong types at every field, missing fields, duplicate keys,
     truncations, non-JSON, deep nesting, huge strings, NUL / invalid UTF-8 via stdin) -> ORACLE
     (exit 0, no panic, every checkpoints.jsonl parses, every recorded entry lies in its innermost repository);
  C  layout cases: a workspace with nested repository, sibling, submodule, linked work tree, bare repositories,
     symlinks, plain directories; cwd / repo_working_dir / file spellings vary -> ORACLE (same + completeness outside
     the known classes) and CORRESPONDENCE with the model's routing (c20-route);
  D  known-class witnesses K1..K5.
"""
import importlib.util
import json
import os
import shutil
import sqlite3
import subprocess
import sys

from . import common as C
from .gitsim import Sim, REALGIT

GEN_FILES = ["GenIngest"]
DRIVERS = ["ingest"]
THEOREMS = ["C20_status0", "C20_never_panics", "C20_status0_refuted", "C20_exit_table_zero", "C20_routing",
            "C20_orphans_ignored", "C20_no_escape", "C20_in_wd_componentwise", "C20_sibling_not_inside",
            "C20_recorded_componentwise", "C20_failed_pass_records_nothing", "C20_lexical_escape", "C20_dotdot_to_root",
            "C20_decoder_total", "C20_decoder_ok_shape", "C20_decoder_rejects",
            "C20_complete_file_based", "C20_complete_primary", "C20_complete_external",
            "C20_nested_complete_refuted", "C20_listed_request_never_scans_all", "C20_foreign_request_records_nothing",
            "C20_foreign_guard_fields", "C20_foreign_request_both_kinds",
            "C20_ex_workspace", "C20_ex_dotdot", "C20_ex_gone_cwd", "C20_ex_dotdot_reentry", "C20_ex_complete_hyps",
            "C20_ex_decoder"]
CLAIM = {
    "text": "Partial proof. Over an executable Gallina model of handle_checkpoint (exit statuses and preset table read from the "
            "source by the translator), of the serde-derived agent-v1 decoder (shapes read from the source) and of the routing "
            "(path_is_in_workdir, find_repository_for_file, group_files_by_repository, the pathspec filter of checkpoint::run): "
            "status 0 and no panic for ALL payload values, presets and layouts, the process cwd may even be gone, for every "
            "UTF-8 command line (C20_status0, C20_never_panics; the unconditional statement is refuted: C20_status0_refuted, "
            "class K4); every recorded file lies in its innermost repository, orphans are recorded nowhere, nothing recorded "
            "escapes the work dir (C20_routing, C20_orphans_ignored, C20_no_escape, C20_lexical_escape, C20_dotdot_to_root); a "
            "request that names files never becomes a whole-tree scan (C20_listed_request_never_scans_all); the decoder is total "
            "and rejects wrong shapes (C20_decoder_*); completeness holds in three stated classes (C20_complete_*) and is refuted "
            "outside them (C20_nested_complete_refuted K1). Tied to the binary by decoder "
            "correspondence on generated JSON values, routing correspondence on generated layouts, and an oracle over every preset.",
    "design_ref": "DESIGN.md §4 C20",
    "note": "serde_json's text parser, git, the third-party transcript readers and the file system are environment: exercised by "
            "the payload matrix (oracle), not proved. Open classes K1, K4, K6 are reproduced on the real binary at every run; the "
            "repaired classes K2, K3, K5, K7, K8 are regression witnesses that must pass.",
    "technique": "Coq proof over extracted model + translator-regenerated tables + system-level differential runs + oracle",
}
TRUSTED_BASE = [
    "Coq 8.16.1 kernel; theorems closed under the global context",
    "tools/gen/GenIngest.py (exit statuses, preset dispatch, serde shapes, panic-site scan)",
    "extraction (ExtrOcamlBasic) + coq/Extract/d_ingest.ml; harness/src/p_c20.rs (path_is_in_workdir in-process)",
    "vlib/c20.py: world builder, independent innermost-repository oracle, working-log reader; vlib/gitsim.py (env pinning)",
    "modelled not verified: serde_json text parsing (recursion limit, UTF-8), git status / rev-parse, std::fs::canonicalize, clap",
]
ASSUMPTIONS = [
    "repositories are allowed by the configuration (default config)",
    "repo_working_dir / cwd are not inside a .git directory",
    "routing correspondence: a preset that takes over repo_working_dir receives an absolute one; listed paths have at most 64 "
    "components; a listed relative path is not a bare `.` (the work dir itself)",
    "routing correspondence compares files that exist and were modified (git status reports only changes); dirty_files are not "
    "modelled: an entry at the canonical location of a dirty_files key is checked by the oracle (innermost repository) only",
]

PANIC_MARKERS = ("panicked at", "RUST_BACKTRACE")
PRESETS = ["agent-v1", "claude", "codex", "gemini", "continue-cli", "cursor", "github-copilot", "amp", "ai_tab",
           "droid", "opencode"]
ERR_MARK = {"agent-v1": "Agent V1 preset error", "claude": "Claude preset error", "codex": "Codex preset error",
            "ai_tab": "ai_tab preset error", "gemini": "Gemini preset error", "continue-cli": "Continue CLI preset error",
            "cursor": "Error running Cursor preset", "github-copilot": "Github Copilot preset error",
            "amp": "Amp preset error", "droid": "Droid preset error", "opencode": "OpenCode preset error"}


# ------------------------------------------------------------------ JSON values with duplicate keys
class Obj:
    def __init__(self, pairs):
        self.pairs = [(k, v) for k, v in pairs]

    def get(self, k):
        r = None
        for a, b in self.pairs:
            if a == k:
                r = b
        return r

    def copy(self):
        return Obj([(k, jcopy(v)) for k, v in self.pairs])


def jcopy(v):
    if isinstance(v, Obj):
        return v.copy()
    if isinstance(v, list):
        return [jcopy(x) for x in v]
    return v


def jtext(v):
    if isinstance(v, Obj):
        return "{" + ",".join(json.dumps(k) + ":" + jtext(x) for k, x in v.pairs) + "}"
    if isinstance(v, list):
        return "[" + ",".join(jtext(x) for x in v) + "]"
    return json.dumps(v, allow_nan=False)


def jsx(v):
    if v is None:
        return "null"
    if v is True:
        return "true"
    if v is False:
        return "false"
    if isinstance(v, int):
        if 0 <= v < 2 ** 64:
            return "(num u %d)" % v
        if -2 ** 63 <= v < 0:
            return "(num i %d)" % (-v)
        return "(num f)"
    if isinstance(v, float):
        return "(num f)"
    if isinstance(v, str):
        return "(s " + C.sx(C.cps(v)) + ")"
    if isinstance(v, list):
        return "(arr" + "".join(" " + jsx(x) for x in v) + ")"
    if isinstance(v, Obj):
        return "(obj" + "".join(" (" + C.sx(C.cps(k)) + " " + jsx(x) + ")" for k, x in v.pairs) + ")"
    raise ValueError(v)


def jdepth(v):
    if isinstance(v, Obj):
        return 1 + max([jdepth(x) for _, x in v.pairs] or [0])
    if isinstance(v, list):
        return 1 + max([jdepth(x) for x in v] or [0])
    return 0


def O(**kw):
    return Obj(list(kw.items()))


WRONG = [None, True, 0, -3, 1.5, 2 ** 70, "str", "", [], ["x"], [1], [None]]


def wrong_values():
    return WRONG + [Obj([]), Obj([("a", "b")]), Obj([("a", 1)]), [[]]]


def mutate(r, v):
    """one structural mutation of an object-valued payload; returns (label, value)"""
    v = jcopy(v)
    if not isinstance(v, Obj) or not v.pairs:
        return "scalar", r.pick(wrong_values())
    # pick a container: top level, or a nested object
    containers = [("", v)]
    for k, x in v.pairs:
        if isinstance(x, Obj) and x.pairs:
            containers.append((k + ".", x))
            for k2, x2 in x.pairs:
                if isinstance(x2, list) and x2 and isinstance(x2[0], Obj):
                    containers.append((k + "." + k2 + "[0].", x2[0]))
    pre, c = r.pick(containers)
    i = r.below(len(c.pairs))
    k = c.pairs[i][0]
    op = r.weighted([(30, "wrong"), (15, "drop"), (10, "dup"), (8, "extra"), (6, "shuffle"), (6, "dupdiff"), (5, "null")])
    if op == "wrong":
        c.pairs[i] = (k, r.pick(wrong_values()))
    elif op == "null":
        c.pairs[i] = (k, None)
    elif op == "drop":
        del c.pairs[i]
    elif op == "dup":
        c.pairs.insert(r.below(len(c.pairs) + 1), (k, jcopy(c.pairs[i][1])))
    elif op == "dupdiff":
        c.pairs.append((k, r.pick(wrong_values())))
    elif op == "extra":
        c.pairs.insert(r.below(len(c.pairs) + 1), (r.pick(["zzz", "Type", "extra", "repo_working_dir ", ""]), r.pick(wrong_values())))
        if r.chance(1, 2):
            c.pairs.append(("zzz", 1))
    else:
        c.pairs = r.shuffle(c.pairs)
    return op + ":" + pre + k, v


# ------------------------------------------------------------------ the world
def _w(p, text, mode="w"):
    os.makedirs(os.path.dirname(p), exist_ok=True)
    with open(p, mode) as f:
        f.write(text)


class World:
    """ws/ (plain) with ra (repo; nested repo ra/inner; optional submodule ra/sm, bare ra/b2.git, symlinks),
    rb (sibling repo), wt (linked work tree of rb), bare.git, plain/ ; outside/ next to ws."""

    def __init__(self, base, name, features=("inner",)):
        self.sim = Sim(base, name)
        self.root = os.path.realpath(self.sim.base)
        self.ws = os.path.join(self.root, "ws")
        self.features = set(features)
        self.repos = {}      # name -> dict(root, kind, ai, workdir)
        self.tdir = os.path.join(self.root, "transcripts")
        self.env_extra = {}
        self._build()

    def g(self, *args, cwd):
        p = subprocess.run([REALGIT] + list(args), cwd=cwd, env=self.sim.env(), stdout=subprocess.PIPE, stderr=subprocess.PIPE)
        return p.returncode, p.stderr.decode("utf-8", "replace")

    def _mk(self, name, path, files):
        os.makedirs(path, exist_ok=True)
        self.g("init", "-q", ".", cwd=path)
        for p, t in files.items():
            _w(os.path.join(path, p), t)
        self.g("add", "-A", cwd=path)
        self.g("commit", "-q", "-m", "base", cwd=path)
        self.repos[name] = {"root": path, "kind": "normal", "ai": os.path.join(path, ".git", "ai"), "workdir": path}

    def _build(self):
        ws = self.ws
        ra, rb = os.path.join(ws, "ra"), os.path.join(ws, "rb")
        self._mk("rb", rb, {"b0.txt": "b0\n", "b1.txt": "b1\n", "sub/b2.txt": "b2\n"})
        # a sibling whose directory name merely extends the name of `ra` (component-wise it is NOT inside ra)
        self._mk("rad", os.path.join(ws, "ra-docs"), {"d0.txt": "d0\n", "sub/d1.txt": "d1\n"})
        self._mk("ra", ra, {"a0.txt": "a0\n", "a1.txt": "a1\n", "sub/a2.txt": "a2\n", "dironly/keep.txt": "k\n",
                            "sp ace/a 3.txt": "a3\n", "uni/é.txt": "u\n"})
        if "inner" in self.features:
            self._mk("inner", os.path.join(ra, "inner"), {"i0.txt": "i0\n", "deep/i1.txt": "i1\n"})
        if "sm" in self.features:
            rc, err = self.g("-c", "protocol.file.allow=always", "submodule", "add", "-q", rb, "sm", cwd=ra)
            self.g("commit", "-q", "-m", "sm", cwd=ra)
            sm = os.path.join(ra, "sm")
            if rc == 0 and os.path.isfile(os.path.join(sm, ".git")):
                self.repos["sm"] = {"root": sm, "kind": "submodule", "workdir": sm,
                                    "ai": os.path.join(ra, ".git", "modules", "sm", "ai")}
        if "wt" in self.features:
            wt = os.path.join(ws, "wt")
            rc, err = self.g("worktree", "add", "-q", wt, "-b", "wtb", cwd=rb)
            if rc == 0:
                self.repos["wt"] = {"root": wt, "kind": "worktree", "workdir": wt,
                                    "ai": os.path.join(rb, ".git", "ai", "worktrees", "wt")}
        if "bare" in self.features:
            b = os.path.join(ws, "bare.git")
            self.g("clone", "-q", "--bare", rb, b, cwd=ws)
            self.repos["bare"] = {"root": b, "kind": "bare", "workdir": ws, "ai": os.path.join(b, "ai")}
        if "bare_in" in self.features:
            b = os.path.join(ra, "b2.git")
            self.g("clone", "-q", "--bare", rb, b, cwd=ws)
            _w(os.path.join(b, "zz.txt"), "zz\n")
            self.repos["bare_in"] = {"root": b, "kind": "bare", "workdir": ra, "ai": os.path.join(b, "ai")}
        if "symlinks" in self.features:
            os.symlink("../rb", os.path.join(ra, "lnk_dir"))
            os.symlink("../rb/b1.txt", os.path.join(ra, "lnk_file"))
            os.symlink(os.path.join(ra, "sub"), os.path.join(rb, "to_ra_sub"))
            for d in (ra, rb):          # tracked and unmodified: a whole-tree scan does not report them (cf. witness K6)
                self.g("add", "-A", cwd=d)
                self.g("commit", "-q", "-m", "links", cwd=d)
        _w(os.path.join(ws, "plain", "p0.txt"), "p0\n")
        _w(os.path.join(self.root, "outside", "o0.txt"), "o0\n")
        os.makedirs(self.tdir, exist_ok=True)

    # -------- transcripts and stores the presets read
    def stores(self):
        t = self.tdir
        _w(os.path.join(t, "claude.jsonl"),
           json.dumps({"type": "user", "timestamp": "2026-01-01T00:00:00Z", "message": {"content": "do it"}}) + "\n" +
           json.dumps({"type": "assistant", "timestamp": "2026-01-01T00:00:01Z",
                       "message": {"model": "claude-x", "content": [{"type": "text", "text": "ok"}]}}) + "\n")
        _w(os.path.join(t, "gemini.json"), json.dumps({"messages": [{"type": "user", "content": "hi"},
                                                                    {"type": "gemini", "model": "g1", "content": "ok"}]}))
        _w(os.path.join(t, "continue.json"), json.dumps({"history": [{"message": {"role": "user", "content": "hi"}}]}))
        _w(os.path.join(t, "rollout-2026-sess1.jsonl"),
           json.dumps({"type": "turn_context", "payload": {"model": "gpt-x"}}) + "\n" +
           json.dumps({"type": "response_item", "payload": {"type": "message", "role": "user",
                                                            "content": [{"type": "input_text", "text": "hi"}]}}) + "\n")
        _w(os.path.join(t, "copilot_session_1.json"),
           json.dumps({"requests": [{"timestamp": 1767225600000, "message": {"text": "hi"}, "modelId": "copilot/x",
                                     "response": [{"value": "ok"}], "result": {"timings": {"totalElapsed": 5}}}]}))
        _w(os.path.join(t, "droid.jsonl"),
           json.dumps({"type": "message", "timestamp": "t", "message": {"role": "user", "content": [{"type": "text", "text": "hi"}]}}) + "\n")
        _w(os.path.join(t, "droid.settings.json"), json.dumps({"model": "droid-m"}))
        amp = os.path.join(t, "amp")
        _w(os.path.join(amp, "T-1.json"), json.dumps({"id": "T-1", "messages": [
            {"role": "user", "content": [{"type": "text", "text": "hi"}], "meta": {"sentAt": 1767225600000}},
            {"role": "assistant", "content": [{"type": "tool_use", "id": "tu1", "name": "edit", "input": {}}],
             "usage": {"model": "amp-m", "timestamp": "t"}}]}))
        oc = os.path.join(t, "opencode")
        os.makedirs(os.path.join(oc, "message", "s1"), exist_ok=True)
        os.makedirs(os.path.join(oc, "part"), exist_ok=True)
        db = os.path.join(t, "cursor.vscdb")
        if not os.path.exists(db):
            con = sqlite3.connect(db)
            con.execute("CREATE TABLE cursorDiskKV (key TEXT PRIMARY KEY, value BLOB)")
            con.execute("INSERT INTO cursorDiskKV VALUES (?,?)",
                        ("composerData:conv1", json.dumps({"fullConversationHeadersOnly": [{"bubbleId": "b1", "type": 1}]})))
            con.execute("INSERT INTO cursorDiskKV VALUES (?,?)", ("bubbleId:conv1:b1", json.dumps({"text": "hi", "createdAt": "t"})))
            con.commit()
            con.close()
        self.env_extra = {"GIT_AI_CURSOR_GLOBAL_DB_PATH": db, "GIT_AI_OPENCODE_STORAGE_PATH": oc,
                          "GIT_AI_AMP_THREADS_PATH": amp, "CODEX_HOME": os.path.join(t, "codex_home")}
        return self

    # -------- independent oracle: the innermost repository containing a real path
    def innermost(self, real, skip_submodules=False):
        best = None
        for n, rp in self.repos.items():
            if rp["kind"] == "bare" or (skip_submodules and rp["kind"] == "submodule"):
                continue
            root = rp["root"]
            if real == root or real.startswith(root + os.sep):
                if best is None or len(root) > len(self.repos[best]["root"]):
                    best = n
        if best is not None:
            rel = os.path.relpath(real, self.repos[best]["root"]).split(os.sep)
            if rel and rel[0] == ".git":
                return None
        return best

    def discover(self, d):
        """git's own discovery from directory d (any kind, bare included)"""
        best = None
        for n, rp in self.repos.items():
            root = rp["root"]
            if d == root or d.startswith(root + os.sep):
                if best is None or len(root) > len(self.repos[best]["root"]):
                    best = n
        return best

    # -------- working logs
    def read_logs(self):
        """-> ({repo: [(kind, [files])...]}, problems)"""
        out, problems, known_dirs = {}, [], []
        for n, rp in self.repos.items():
            wl = os.path.join(rp["ai"], "working_logs")
            known_dirs.append(wl + os.sep)
            ents = []
            if os.path.isdir(wl):
                for base in sorted(os.listdir(wl)):
                    p = os.path.join(wl, base, "checkpoints.jsonl")
                    if not os.path.isfile(p):
                        continue
                    with open(p, "rb") as f:
                        data = f.read()
                    for ln, line in enumerate(data.split(b"\n")):
                        if not line.strip():
                            continue
                        try:
                            o = json.loads(line.decode("utf-8"))
                            ents.append((o.get("kind"), [e["file"] for e in o["entries"]]))
                        except Exception as e:  # noqa
                            problems.append(f"{n}: {p} line {ln + 1} does not parse: {e}")
            out[n] = ents
        for dp, dn, fn in os.walk(self.root):
            if "checkpoints.jsonl" in fn:
                p = os.path.join(dp, "checkpoints.jsonl")
                if not any(p.startswith(k) for k in known_dirs):
                    problems.append(f"working log outside every known repository storage: {p}")
        return out, problems

    def new_entries(self, before, after):
        """[(repo, kind, file)] added between two read_logs results"""
        res = []
        for n, ents in after.items():
            old = before.get(n, [])
            for k, files in ents[len(old):]:
                for f in files:
                    res.append((n, k, f))
        return res

    def entry_real(self, repo, f):
        """where the directory entry lives (the last component is not followed: git tracks a symlink as itself)"""
        p = os.path.join(self.repos[repo]["workdir"], f)
        return os.path.join(os.path.realpath(os.path.dirname(p)), os.path.basename(p))

    def run(self, preset, payload, cwd, via="argv", extra_args=(), timeout=120):
        argv = [C.GITAI, "checkpoint"] + ([preset] if preset else []) + list(extra_args)
        stdin = None
        if payload is not None:
            if via == "stdin":
                argv += ["--hook-input", "stdin"]
                stdin = payload if isinstance(payload, bytes) else payload.encode("utf-8", "surrogatepass")
            else:
                argv += ["--hook-input", payload]
        try:
            p = subprocess.run(argv, cwd=cwd, env=self.sim.env(self.env_extra), input=stdin,
                               stdout=subprocess.PIPE, stderr=subprocess.PIPE, timeout=timeout)
            return p.returncode, p.stderr.decode("utf-8", "replace")
        except subprocess.TimeoutExpired:
            return 124, "TIMEOUT"
        except OSError as e:
            return -1, "OSERROR %s" % e       # E2BIG: the payload does not fit argv


def short(x, n=300):
    if isinstance(x, bytes):
        x = x.decode("utf-8", "replace")
    return x if len(x) <= n else x[:n] + "...(%d chars)" % len(x)


def err_tail(err, n=400):
    ls = [l for l in err.splitlines() if "BENCHMARK" not in l and "[Migration]" not in l]
    return "\n".join(ls)[-n:]


def basic_oracle(rc, err):
    """exit status 0 and no panic marker"""
    bad = []
    if rc != 0:
        bad.append(f"exit status {rc}")
    for m in PANIC_MARKERS:
        if m in err:
            bad.append(f"stderr has panic marker {m!r}")
            break
    return bad


# ------------------------------------------------------------------ A. decoder correspondence
def v1_base(r, rwd, files):
    if r.chance(1, 2):
        v = Obj([("type", "human"), ("repo_working_dir", rwd), ("will_edit_filepaths", files)])
        if r.chance(1, 3):
            v.pairs.append(("dirty_files", r.pick([None, Obj([]), Obj([("a.txt", "x\n")]), Obj([("a", "x"), ("a", "y")])])))
        return v
    msgs = []
    for _ in range(r.range(0, 3)):
        t = r.pick(["user", "assistant", "thinking", "plan", "tool_use"])
        if t == "tool_use":
            m = Obj([("type", t), ("name", "edit"), ("input", r.pick([None, 1, "s", Obj([("file_path", "x")]), [1, [2, [3]]]]))])
        else:
            m = Obj([("type", t), ("text", r.pick(["hi", "", "multi\nline", "\u0000nul"]))])
        if r.chance(1, 3):
            m.pairs.append(("timestamp", r.pick(["2026-01-01T00:00:00Z", None])))
        msgs.append(m)
    v = Obj([("type", "ai_agent"), ("repo_working_dir", rwd), ("edited_filepaths", files),
             ("transcript", Obj([("messages", msgs)])), ("agent_name", "toolx"), ("model", "m1"), ("conversation_id", "c1")])
    if r.chance(1, 4):
        v.pairs.append(("dirty_files", None))
    return v


def to_seq_form(r, v):
    """the sequence form serde accepts for internally tagged enums / structs"""
    tag = v.get("type")
    vals = [x for k, x in v.pairs if k != "type"]
    vals = [([[jcopy(m) for m in x.get("messages")]] if isinstance(x, Obj) and x.get("messages") is not None else x) for x in vals]
    k = r.weighted([(50, 0), (15, -1), (15, 1), (10, -2), (10, 2)])
    if k < 0:
        vals = vals[:k]
    elif k > 0:
        vals = vals + [None] * k
    return [tag] + vals


def gen_v1_value(r, rwd):
    files = r.pick([None, [], ["a.txt"], ["a.txt", "/abs/b.txt"], ["../x"], [""]])
    v = v1_base(r, rwd, files)
    k = r.weighted([(20, "valid"), (45, "mut1"), (10, "mut2"), (10, "seq"), (5, "tag"), (10, "msgseq"), (5, "scalar")])
    if k == "valid":
        return k, v
    if k == "mut1":
        lab, v = mutate(r, v)
        return lab.split(":")[0], v
    if k == "mut2":
        _, v = mutate(r, v)
        if isinstance(v, Obj):
            _, v = mutate(r, v)
        return k, v
    if k == "seq":
        return k, to_seq_form(r, v)
    if k == "tag":
        t = r.pick(["Human", "AI_AGENT", "ai_tab", "", 0, 1, None, ["human"], "human ", "aiagent"])
        v.pairs = [(a, (t if a == "type" else b)) for a, b in v.pairs]
        return k, v
    if k == "msgseq":
        tr = v.get("transcript")
        if isinstance(tr, Obj):
            ms = r.pick([[Obj([("type", r.pick([0, 1, 2, 3, 4, 5, 7, -1, 1.0, 2 ** 64, True])), ("text", "x"), ("name", "n"), ("input", 1)])],
                         [[r.pick([0, 3, 4, 5, -1]), "hi", None]], [[4, "n", None, None]], [Obj([("type", r.pick([0, 4])), ("name", "n"), ("input", None)])],
                         [["user", "hi", None]], [["user", "hi"]], [["tool_use", "n", None, None]], [["user"]], [["nope", "x", None]],
                         [Obj([("type", "user"), ("text", "x"), ("type", "user")])], [Obj([("text", "x")])], [Obj([("type", "user")])]])
            tr.pairs = [("messages", ms)]
        return k, v
    return k, r.pick(wrong_values())


def gen_claude_value(r):
    tp = r.pick(["/tmp/x/abc.jsonl", "rel.jsonl", "", "..", "/", "a/..", "/tmp/dir/", ".", "/tmp/.."])
    v = Obj([("hook_event_name", r.pick(["PostToolUse", "PreToolUse", "Stop", 5])), ("transcript_path", tp),
             ("cwd", "/tmp/x"), ("tool_input", Obj([("file_path", "a.txt")]))])
    if r.chance(1, 12):
        v.pairs.append(("cursor_version", r.pick(["1.0", None])))
    if r.chance(2, 3):
        _, v = mutate(r, v)
    if r.chance(1, 15):
        v = r.pick(wrong_values())
    return v


def gen_codex_value(r):
    keys = r.pick([["session_id"], ["thread_id"], ["thread-id"], [], ["session_id", "thread_id"]])
    v = Obj([(k, r.pick(["s1", "s1", 5, None])) for k in keys] + [("cwd", r.pick(["/tmp/x", "/tmp/x", None, 3]))])
    if r.chance(1, 4):
        v.pairs.append(("hook_event", r.pick([Obj([("thread_id", "t9")]), Obj([]), "x", Obj([("thread_id", 1)])])))
    if r.chance(1, 2):
        _, v = mutate(r, v)
    if r.chance(1, 15):
        v = r.pick(wrong_values())
    return v


def gen_aitab_value(r):
    v = Obj([("hook_event_name", r.pick(["before_edit", "after_edit", "after_edit", "PostToolUse", ""])),
             ("tool", r.pick(["t", "t", " ", "", " ", " x "])), ("model", r.pick(["m", "m", "\t", ""])),
             ("repo_working_dir", r.pick(["/tmp/x", None, "  ", " /tmp/x "])),
             ("will_edit_filepaths", r.pick([None, ["a"], []])), ("edited_filepaths", r.pick([None, ["a"], [1]])),
             ("completion_id", r.pick(["c", None, 3])), ("dirty_files", r.pick([None, Obj([]), Obj([("a", 1)])]))])
    k = r.below(10)
    if k < 5:
        _, v = mutate(r, v)
    elif k == 5:
        vals = [x for _, x in v.pairs]
        v = vals[:r.pick([8, 8, 7, 9, 3])] if r.chance(2, 3) else vals + [None]
    return v


def decoder_batch(args):
    base, seed, idx, n = args
    r = C.Rng(seed).fork(f"c20-dec-{idx}")
    W = World(base, f"dec{idx}", features=())
    rwd = W.repos["ra"]["root"]
    out = []
    try:
        for k in range(n):
            which = r.weighted([(55, "agent-v1"), (15, "claude"), (15, "codex"), (15, "ai_tab")])
            if which == "agent-v1":
                lab, v = gen_v1_value(r, r.pick([rwd, rwd, "/nonexistent/c20", "rel/dir", ""]))
            elif which == "claude":
                lab, v = "claude", gen_claude_value(r)
            elif which == "codex":
                lab, v = "codex", gen_codex_value(r)
            else:
                lab, v = "ai_tab", gen_aitab_value(r)
            text = jtext(v)
            via = "stdin" if len(text) > 100000 or r.chance(1, 5) else "argv"
            if not text.strip() or text == "stdin":
                continue
            rc, err = W.run(which, text, cwd=rwd, via=via)
            out.append({"preset": which, "label": lab, "text": text, "sx": jsx(v), "rc": rc,
                        "rejected": ERR_MARK[which] in err, "bad": basic_oracle(rc, err), "err": err_tail(err, 300)})
        return out
    finally:
        shutil.rmtree(W.root, ignore_errors=True)


# ------------------------------------------------------------------ B. payload matrix for every preset
def valid_shapes(W, preset):
    """[(label, Obj payload, [edited abs files], cwd)] — the shapes the integrations send (cf. /repo/tests/*.rs)"""
    ra = W.repos["ra"]["root"]
    f0, f1 = os.path.join(ra, "a0.txt"), os.path.join(ra, "sub", "a2.txt")
    t = W.tdir
    S = []
    if preset == "agent-v1":
        S.append(("human", O(type="human", repo_working_dir=ra, will_edit_filepaths=[f0]), [], ra))
        S.append(("ai", O(type="ai_agent", repo_working_dir=ra, edited_filepaths=["a0.txt", f1],
                          transcript=O(messages=[O(type="user", text="do"), O(type="tool_use", name="e", input=O(file_path=f0))]),
                          agent_name="toolx", model="m1", conversation_id="c1"), [f0, f1], ra))
        S.append(("ai-dirty", O(type="ai_agent", repo_working_dir=ra, edited_filepaths=[f0], transcript=O(messages=[]),
                                agent_name="toolx", model="m1", conversation_id="c2",
                                dirty_files=Obj([(f0, "a0\nfrom dirty\n")])), [f0], ra))
    elif preset == "claude":
        for ev in ("PreToolUse", "PostToolUse"):
            S.append((ev, O(hook_event_name=ev, session_id="s1", transcript_path=os.path.join(t, "claude.jsonl"), cwd=ra,
                            tool_name="Edit", tool_input=O(file_path=f0)), [f0] if ev == "PostToolUse" else [], ra))
    elif preset == "gemini":
        for ev in ("BeforeTool", "AfterTool"):
            S.append((ev, O(hook_event_name=ev, session_id="s1", transcript_path=os.path.join(t, "gemini.json"), cwd=ra,
                            tool_input=O(file_path=f0)), [f0] if ev == "AfterTool" else [], ra))
    elif preset == "continue-cli":
        for ev in ("PreToolUse", "PostToolUse"):
            S.append((ev, O(hook_event_name=ev, session_id="s1", transcript_path=os.path.join(t, "continue.json"), cwd=ra,
                            model="m", tool_input=O(file_path=f0)), [f0] if ev == "PostToolUse" else [], ra))
    elif preset == "codex":
        S.append(("notify", O(type="agent-turn-complete", session_id="sess1", cwd=ra,
                              transcript_path=os.path.join(t, "rollout-2026-sess1.jsonl")), [f0], ra))
        S.append(("thread", Obj([("thread-id", "sess1"), ("cwd", ra)]), [f1], ra))
    elif preset == "cursor":
        S.append(("before", O(conversation_id="conv1", workspace_roots=[ra], hook_event_name="beforeSubmitPrompt", model="m"), [], ra))
        S.append(("after", O(conversation_id="conv1", workspace_roots=[ra], hook_event_name="afterFileEdit", file_path=f0, model="m"), [f0], ra))
    elif preset == "github-copilot":
        cs = os.path.join(t, "copilot_session_1.json")
        S.append(("before_edit", O(hook_event_name="before_edit", workspace_folder=ra, will_edit_filepaths=[f0],
                                   dirty_files=Obj([(f0, "a0\n")])), [], ra))
        S.append(("after_edit", O(hook_event_name="after_edit", workspace_folder=ra, chat_session_path=cs, session_id="s1",
                                  edited_filepaths=[f0], dirty_files=Obj([(f0, "a0\nx\n")])), [f0], ra))
        S.append(("native-post", O(hook_event_name="PostToolUse", cwd=ra, tool_name="copilot_replaceString", session_id="s1",
                                   tool_input=O(filePath=f0), transcript_path=cs), [f0], ra))
        S.append(("native-pre", O(hookEventName="PreToolUse", cwd=ra, toolName="create_file", sessionId="s1",
                                  toolInput=O(files=["sub/a2.txt"]), transcriptPath=cs), [], ra))
    elif preset == "amp":
        for ev in ("PreToolUse", "PostToolUse"):
            S.append((ev, O(hook_event_name=ev, tool_use_id="tu1", thread_id="T-1", cwd=ra, edited_filepaths=[f0],
                            tool_input=O(path=f0)), [f0] if ev == "PostToolUse" else [], ra))
    elif preset == "ai_tab":
        S.append(("before", O(hook_event_name="before_edit", tool="tab", model="m", repo_working_dir=ra, will_edit_filepaths=[f0],
                              completion_id="c1"), [], ra))
        S.append(("after", O(hook_event_name="after_edit", tool="tab", model="m", repo_working_dir=ra, edited_filepaths=[f0],
                             completion_id="c1", dirty_files=None), [f0], ra))
    elif preset == "droid":
        S.append(("post", O(session_id="s1", cwd=ra, hookEventName="PostToolUse", tool_name="Edit", tool_input=O(file_path=f0),
                            transcript_path=os.path.join(t, "droid.jsonl")), [f0], ra))
        S.append(("patch", O(sessionId="s1", cwd=ra, hook_event_name="PostToolUse", toolName="ApplyPatch",
                             toolInput=O(patch="*** Begin Patch\n*** Update File: " + f1 + "\n@@\n*** End Patch")), [f1], ra))
        S.append(("pre", O(cwd=ra, hookEventName="PreToolUse", tool_name="Edit", tool_input=O(filePath=f0)), [], ra))
    elif preset == "opencode":
        for ev in ("PreToolUse", "PostToolUse"):
            S.append((ev, O(hook_event_name=ev, session_id="s1", cwd=ra, tool_input=O(filePath=f0)),
                      [f0] if ev == "PostToolUse" else [], ra))
    return S


NON_JSON = ["hello", "<xml/>", "{'a':1}", "NaN", "[1,2", "{}garbage", "{\"a\":}", "\\", "nul", "tru", "-", "\"unterminated",
            "{\"a\":1,}", "[,]", "\u00e9\u4e2d", "0x10", "1e9999", "{\"k\":\"\\ud800\"}", "{\"k\":\"\\x\"}", "\"\t\""]


def matrix_cases(r, W, preset, n_target):
    """[(label, payload text|bytes, via, edited, cwd)]"""
    shapes = valid_shapes(W, preset)
    cases = []
    for lab, v, ed, cwd in shapes:
        cases.append(("valid:" + lab, jtext(v), r.pick(["argv", "stdin"]), ed, cwd))
    base_lab, base, base_ed, base_cwd = shapes[-1]
    # wrong types / missing at every top-level field of every shape
    for lab, v, ed, cwd in shapes:
        for i, (k, _) in enumerate(v.pairs):
            for wv in [r.pick(wrong_values()) for _ in range(2)]:
                m = jcopy(v)
                m.pairs[i] = (k, wv)
                cases.append((f"wrong:{lab}.{k}", jtext(m), "argv", ed, cwd))
            m = jcopy(v)
            del m.pairs[i]
            cases.append((f"missing:{lab}.{k}", jtext(m), "argv", ed, cwd))
    if len(cases) > n_target - 28:
        keep = [c for c in cases if c[0].startswith("valid:")]
        rest = r.shuffle([c for c in cases if not c[0].startswith("valid:")])
        cases = keep + rest[:max(0, n_target - 28 - len(keep))]
    for _ in range(4):
        lab, m = mutate(r, base)
        cases.append(("mut:" + lab, jtext(m), "argv", base_ed, base_cwd))
    txt = jtext(base)
    cuts = sorted(set([1, 2, len(txt) // 4, len(txt) // 2, (3 * len(txt)) // 4, len(txt) - 1, len(txt) - 2]
                      + [txt.find('":') + 1, txt.find(":") + 2]))
    for c in cuts:
        if 0 < c < len(txt):
            cases.append((f"trunc:{c}", txt[:c], r.pick(["argv", "stdin"]), base_ed, base_cwd))
    for s in [r.pick(NON_JSON) for _ in range(4)]:
        cases.append(("nonjson", s, r.pick(["argv", "stdin"]), [], base_cwd))
    # deep nesting: serde_json's recursion limit must turn this into an error, not a stack overflow
    cases.append(("deep:arr", "[" * 10000 + "]" * 10000, "argv", [], base_cwd))
    cases.append(("deep:obj", '{"a":' * 10000 + "1" + "}" * 10000, "stdin", [], base_cwd))
    m = jcopy(base)
    m.pairs.append(("zz_deep", None))
    cases.append(("deep:field", jtext(m).replace('"zz_deep":null', '"zz_deep":' + "[" * 3000 + "]" * 3000), "stdin", base_ed, base_cwd))
    # huge strings (1-5 MB) need stdin (a single argv string is limited to 128 KiB)
    for which in range(2):
        m = jcopy(base)
        big = ("x" * 1023 + "\n") * (1024 * r.range(1, 5))
        strs = [i for i, (k, x) in enumerate(m.pairs) if isinstance(x, str)]
        if which == 0 and strs:
            i = r.pick(strs)
            m.pairs[i] = (m.pairs[i][0], big)
        else:
            m.pairs.append(("zz_big", big))
        cases.append((f"huge:{which}", jtext(m), "stdin", base_ed, base_cwd))
    cases.append(("argv-limit", jtext(base)[:-1] + ',"zz":"' + "y" * 200000 + '"}', "argv", [], base_cwd))
    # NUL / invalid UTF-8 / BOM / blank
    raw = txt.encode()
    cases.append(("nul-raw", raw[:len(raw) // 2] + b"\x00" + raw[len(raw) // 2:], "stdin", [], base_cwd))
    cases.append(("utf8-bad", raw[:len(raw) // 2] + b"\xff\xfe" + raw[len(raw) // 2:], "stdin", [], base_cwd))
    cases.append(("utf8-bad-start", b"\xc3(" + raw, "stdin", [], base_cwd))
    m = jcopy(base)
    for i, (k, x) in enumerate(m.pairs):
        if isinstance(x, str):
            m.pairs[i] = (k, x[:len(x) // 2] + "\u0000" + x[len(x) // 2:])
    cases.append(("nul-escaped", jtext(m), "argv", [], base_cwd))
    cases.append(("bom", "\ufeff" + txt, r.pick(["argv", "stdin"]), base_ed, base_cwd))
    cases.append(("blank-stdin", "  \n", "stdin", [], base_cwd))
    cases.append(("blank-argv", " ", "argv", [], base_cwd))
    cases.append(("dupkeys", txt[:-1] + "," + txt[1:], "argv", base_ed, base_cwd))
    cases.append(("no-hook-input", None, "argv", [], base_cwd))
    return cases


def dirty_interpretations(payload, bases):
    """where the payload's dirty_files keys point when read against the directories the request was made for
    (an unsaved editor buffer may legitimately name a file that is not on disk yet)"""
    out = set()
    try:
        obj = json.loads(payload) if isinstance(payload, (str, bytes)) else None
    except Exception:  # noqa
        return out
    df = obj.get("dirty_files", obj.get("dirtyFiles")) if isinstance(obj, dict) else None
    if isinstance(df, dict):
        for k in df:
            if isinstance(k, str) and "\0" not in k:
                for b in bases:
                    if b:
                        out.add(os.path.normpath(k if os.path.isabs(k) else os.path.join(b, k)))
    return out


def safety_check(W, new, unsaved=()):
    """every new entry must lie in the innermost repository containing it (independent of the payload)"""
    bad = []
    for repo, kind, f in new:
        if os.path.isabs(f):
            bad.append(f"absolute path {f!r} recorded in {repo}")
            continue
        real = W.entry_real(repo, f)
        want = W.innermost(real)
        if want != repo:
            bad.append(f"{f!r} recorded in repository {repo} but {real} belongs to {want}")
        elif not os.path.lexists(real) and os.path.normpath(real) not in unsaved:
            # a deleted tracked file is a legitimate entry; a path that never existed in this repository is not
            rc, _ = W.g("cat-file", "-e", "HEAD:" + os.path.relpath(real, W.repos[repo]["workdir"]), cwd=W.repos[repo]["workdir"])
            if rc != 0:
                bad.append(f"{f!r} recorded in repository {repo}: no such file there (neither in the work tree nor in HEAD)")
    return bad


def matrix_batch(args):
    base, seed, idx, preset, n_target = args
    r = C.Rng(seed).fork(f"c20-mx-{preset}-{idx}")
    W = World(base, f"mx{idx}", features=("inner",)).stores()
    viol, stats, samples = [], {"runs": 0, "accepted": 0, "recorded": 0, "labels": {}}, []
    try:
        cases = matrix_cases(r, W, preset, n_target)
        before, probs = W.read_logs()
        for lab, payload, via, edited, cwd in cases:
            for f in edited:
                _w(f, f"edit {stats['runs']}\n", "a")
            rc, err = W.run(preset, payload, cwd=cwd, via=via)
            stats["runs"] += 1
            cls = lab.split(":")[0]
            stats["labels"][cls] = stats["labels"].get(cls, 0) + 1
            if rc == -1 and lab == "argv-limit":
                continue        # the OS refused the command line: nothing ran
            bad = basic_oracle(rc, err)
            after, probs = W.read_logs()
            new = W.new_entries(before, after)
            before = after
            bad += probs + safety_check(W, new, dirty_interpretations(payload, [cwd]))
            rejected = ERR_MARK[preset] in err
            if not rejected and payload is not None:
                stats["accepted"] += 1
            if new:
                stats["recorded"] += 1
            if lab.startswith("valid:") and edited and preset != "codex":
                # (codex never lists files: which dirty files a list-less checkpoint picks up is not C20's subject)
                got = {W.entry_real(rp, f) for rp, _, f in new}
                for f in edited:
                    if os.path.realpath(f) not in got:
                        bad.append(f"valid {preset} payload: edited file {f} not recorded (stderr: {err_tail(err, 200)})")
            if bad:
                viol.append({"kind": "payload-matrix", "preset": preset, "label": lab, "via": via, "cwd": cwd,
                             "payload": short(payload or "", 1500), "problems": bad[:4], "rc": rc, "stderr": err_tail(err, 600)})
            if len(samples) < 2 and lab.startswith(("valid", "wrong")):
                samples.append({"preset": preset, "label": lab, "payload": short(payload or "", 200), "rc": rc,
                                "rejected": rejected, "new_entries": new[:3]})
        # the working logs are still usable
        for n, rp in W.repos.items():
            rc, err = W.run(None, None, cwd=rp["workdir"], extra_args=["--show-working-log"])
            bad = basic_oracle(rc, err)
            if bad:
                viol.append({"kind": "show-working-log", "repo": n, "problems": bad, "stderr": err_tail(err)})
        ra = W.repos["ra"]["root"]
        W.g("add", "-A", cwd=ra)
        rc, out, err = W.sim.git("commit", "-q", "-m", "after matrix", cwd=ra)
        if rc != 0 or any(m in err for m in PANIC_MARKERS):
            viol.append({"kind": "commit-after-matrix", "rc": rc, "stderr": err_tail(err)})
        return {"violations": viol, "stats": stats, "samples": samples}
    finally:
        shutil.rmtree(W.root, ignore_errors=True)


# ------------------------------------------------------------------ C. layout cases: oracle + routing correspondence
def pieces(s):
    return [c for c in s.split("/") if c not in ("", ".")]


def absolutize(base_raw, s):
    segs = [("up" if c == ".." else c) for c in pieces(s)]
    return segs if s.startswith("/") else list(base_raw) + segs


def raw_str(raw):
    return "/" + "/".join(".." if c == "up" else c for c in raw)


def comps(p):
    return [c for c in p.split("/") if c]


def sx_path(cs):
    return "(" + " ".join(C.sx(C.cps(c)) for c in cs) + ")"


def sx_raw(raw):
    return "(" + " ".join("up" if c == "up" else C.sx(C.cps(c)) for c in raw) + ")"


def stat_entry(raw):
    s = raw_str(raw)
    try:
        if os.path.isdir(s):
            return f"({sx_raw(raw)} dir {sx_path(comps(os.path.realpath(s)))})"
        if os.path.isfile(s):
            return f"({sx_raw(raw)} file {sx_path(comps(os.path.realpath(s)))})"
    except (ValueError, OSError):
        pass
    return None


def model_route_input(W, preset_sym, cwd, hook_sx, rwd, files, failing=()):
    """cwd None = the process working directory no longer exists"""
    lay = "(" + " ".join(f"({sx_path(comps(rp['root']))} {rp['kind']})" for rp in W.repos.values()) + ")"
    cwd_raw = comps(cwd) if cwd else []
    bases = [cwd_raw] if cwd else []
    if rwd is not None and (cwd or rwd.startswith("/")):
        bases.append(absolutize(cwd_raw, rwd))
    for rp in W.repos.values():
        bases.append(comps(rp["workdir"]))
    cand = {}
    for b in bases:
        cand[tuple(b)] = b
        for f in files or []:
            raw = absolutize(b, f)
            cand[tuple(raw)] = raw
            if len(raw) <= 64:
                for k in range(len(raw)):          # the upward walk over the path as written
                    cand[tuple(raw[:k])] = raw[:k]
            else:
                cand[tuple(raw[:-1])] = raw[:-1]
    stats = [e for e in (stat_entry(raw) for raw in cand.values()) if e]
    fl = " ".join(f"({sx_path(comps(W.repos[n]['root']))} {W.repos[n]['kind']})" for n in sorted(failing))
    return (f"{lay} {sx_path(cwd_raw) if cwd else 'none'} ({' '.join(stats)}) ({fl}) {preset_sym} {hook_sx}")


def parse_route_output(W, out):
    """-> (status, panic, scope_all, {(repo_name, real path)})"""
    xs = C.sx_parse_many(out)
    d = {x[0]: x[1:] for x in xs if isinstance(x, list) and x and isinstance(x[0], str)}
    by_root = {rp["root"]: n for n, rp in W.repos.items()}
    recs = set()
    for rec in d.get("records", []):
        (root, kind), q = rec
        rootp = "/" + "/".join(C.uncps(c) for c in root)
        recs.add((by_root.get(rootp, rootp), "/" + "/".join(C.uncps(c) for c in q)))
    return d["status"][0], d["panic"][0], d["scope-all"][0], recs


LOCS = ["ws", "ra", "ra/sub", "inner", "rb", "rad", "plain", "outside", "wt", "bare", "sm", "gone"]


def loc_path(W, name):
    ws = W.ws
    return {"ws": ws, "ra": ws + "/ra", "ra/sub": ws + "/ra/sub", "inner": ws + "/ra/inner", "rb": ws + "/rb", "rad": ws + "/ra-docs",
            "plain": ws + "/plain", "outside": W.root + "/outside", "wt": ws + "/wt", "bare": ws + "/bare.git",
            "sm": ws + "/ra/sm", "gone": ws + "/nonexistent/dir"}[name]


def targets(W):
    """editable regular files: (spelled absolute path, via_symlink)"""
    ws = W.ws
    t = [(ws + "/ra/a0.txt", False), (ws + "/ra/sub/a2.txt", False), (ws + "/ra/sp ace/a 3.txt", False), (ws + "/ra/uni/é.txt", False),
         (ws + "/rb/b0.txt", False), (ws + "/rb/sub/b2.txt", False), (ws + "/ra-docs/d0.txt", False),
         (ws + "/ra-docs/sub/d1.txt", False), (ws + "/plain/p0.txt", False), (W.root + "/outside/o0.txt", False)]
    if "inner" in W.repos:
        t += [(ws + "/ra/inner/i0.txt", False), (ws + "/ra/inner/deep/i1.txt", False)]
    if "sm" in W.repos:
        t += [(ws + "/ra/sm/b0.txt", False)]
    if "wt" in W.repos:
        t += [(ws + "/wt/b0.txt", False)]
    if "bare_in" in W.repos:
        t += [(ws + "/ra/b2.git/zz.txt", False)]
    if "symlinks" in W.features:
        t += [(ws + "/ra/lnk_dir/b0.txt", True), (ws + "/ra/lnk_file", True), (ws + "/rb/to_ra_sub/a2.txt", True)]
    return t


def known_drop(W, P, base_real, target_real, want, no_boundary=False):
    """C20-K1 (independent of the model): the classes in which a listed file of repository `want` is recorded nowhere"""
    if P is not None:
        wd = W.repos[P]["workdir"]
        if target_real == wd or target_real.startswith(wd + os.sep):
            return want != P or W.repos[P]["kind"] == "bare"
        return W.repos[want]["kind"] == "submodule"
    root = W.repos[want]["root"]
    inside = no_boundary or (base_real is not None and (root == base_real or root.startswith(base_real + os.sep)))
    return W.repos[want]["kind"] == "submodule" or not inside


def layout_case(args):
    base, seed, idx = args
    r = C.Rng(seed).fork(f"c20-lay-{idx}")
    feats = ["inner"] + [f for f in ("sm", "wt", "bare", "bare_in", "symlinks") if r.chance(1, 2)]
    W = World(base, f"lay{idx}", features=feats)
    try:
        locs = [l for l in LOCS if l in ("ws", "ra", "ra/sub", "inner", "rb", "rad", "plain", "outside", "gone") or l in W.repos]
        deleted_cwd = r.chance(1, 25)
        cwd_name = r.weighted([(25, "ra"), (20, "ws"), (10, "rb"), (8, "inner"), (8, "ra/sub"), (8, "plain"), (5, "outside"), (5, "rad")]
                              + [(6, l) for l in ("wt", "bare", "sm") if l in W.repos])
        cwd = loc_path(W, cwd_name)
        preset = r.weighted([(75, "agent-v1"), (13, "claude"), (12, "ai_tab")])
        if preset == "claude":
            rwd_name, rwd = None, None
        else:
            rwd_name = cwd_name if r.chance(1, 2) else r.pick(locs)
            rwd = loc_path(W, rwd_name)
            if r.chance(1, 12) and rwd_name not in ("gone",):
                rwd = os.path.relpath(rwd, cwd)              # a relative repo_working_dir
            if preset == "ai_tab" and r.chance(1, 4):
                rwd_name, rwd = None, None
        if deleted_cwd:          # the process sits in a removed directory: only an absolute repo_working_dir resolves
            eff = rwd if (rwd is not None and os.path.isabs(rwd)) else None
        else:
            eff = cwd if rwd is None else (rwd if os.path.isabs(rwd) else os.path.join(cwd, rwd))
        eff_real = os.path.realpath(eff) if (eff and os.path.isdir(eff)) else None
        P = W.discover(eff_real) if eff_real else None
        # relative spellings are unambiguous only when cwd, repo_working_dir and the work dir of P coincide
        unamb = (not deleted_cwd) and P is not None and eff_real == cwd == W.repos[P]["workdir"]
        ts = targets(W)
        listed, edited = [], []       # listed: (spelling, target real or None, check_complete)
        nfiles = 1 if preset == "claude" else r.weighted([(35, 1), (35, 2), (20, 3), (10, 4)])
        for _ in range(nfiles):
            k = r.weighted([(70, "target"), (8, "missing"), (5, "dir"), (4, "etc"), (3, "empty"), (3, "nul"), (3, "long"), (4, "dotdot-root")])
            if k == "target":
                t, sym = r.pick(ts)
                real = os.path.realpath(t)
                sp = r.weighted([(50, "abs"), (20, "rel"), (15, "dotty"), (15, "detour")])
                if sp == "abs":
                    s, chk = t, True
                elif sp == "rel":
                    s, chk = os.path.relpath(t, eff_real or cwd), unamb
                    if P is not None and not unamb and r.chance(1, 2):
                        s, chk = os.path.relpath(t, W.repos[P]["workdir"]), True     # relative to the repository root
                elif sp == "dotty":
                    cs = comps(t)
                    i = r.range(1, len(cs) - 1)
                    s, chk = "/" + "/".join(cs[:i] + ["."] + cs[i:]).replace("/./", "/./", 1), True
                    s = s.replace("/" + cs[-1], "//" + cs[-1]) if r.chance(1, 3) else s
                else:
                    cs = comps(t)
                    i = r.range(1, len(cs) - 1)
                    s, chk = "/" + "/".join(cs[:i] + ["..", cs[i - 1]] + cs[i:]), True
                if real not in [e for e in edited]:
                    edited.append(real)
                listed.append((s, real, chk and not sym))
            elif k == "missing":
                s = r.pick([W.ws + "/ra/ghost.txt", "../rb/ghost.txt", W.ws + "/rb/nodir/ghost.txt", "ghost/../../rb/g.txt",
                            W.ws + "/ra/inner/ghost.txt", W.ws + "/plain/ghost.txt"])
                listed.append((s, None, False))
            elif k == "dir":
                listed.append((r.pick([W.ws + "/ra/dironly", "dironly", W.ws + "/plain", W.ws + "/rb/sub/.."]), None, False))
            elif k == "etc":
                listed.append((r.pick(["/etc/hostname", "/etc/passwd", "/proc/self/status", "/dev/null"]), None, False))
            elif k == "empty":
                listed.append((r.pick(["", " ", "/", ".", ".."]), None, False))
            elif k == "nul":
                listed.append(("a\u0000b.txt", None, False))
            elif k == "long":
                listed.append(("d" * 300 + "/x.txt" if r.chance(1, 2) else "e/" * 3000 + "x", None, False))
            else:
                listed.append(("../" * 40 + r.pick(["etc/hostname", W.ws[1:] + "/rb/b0.txt"]), None, False))
        ai = r.chance(2, 3)
        files = [s for s, _, _ in listed]
        if r.chance(1, 15):
            files = None
        bystanders = []
        if r.chance(1, 2):
            bystanders = [W.ws + "/ra/a1.txt", W.ws + "/rb/b1.txt"]
            if os.path.realpath(W.ws + "/rb/b1.txt") in edited:
                bystanders = bystanders[:1]
        for f in edited:
            _w(f, f"agent edit {idx}\n", "a")
        for f in bystanders:
            _w(f, f"human edit {idx}\n", "a")
        if preset == "agent-v1":
            if ai:
                v = O(type="ai_agent", repo_working_dir=rwd, edited_filepaths=files, transcript=O(messages=[O(type="user", text="go")]),
                      agent_name="toolx", model="m1", conversation_id=f"c{idx}")
                if r.chance(1, 4):       # the editor ships the buffer contents, keyed by the paths as listed
                    df = []
                    for sp, real, _ in listed:
                        if real is not None:
                            try:
                                df.append((sp, open(real).read()))
                            except OSError:
                                pass
                    v.pairs.append(("dirty_files", Obj(df)))
            else:
                v = O(type="human", repo_working_dir=rwd, will_edit_filepaths=files)
            psym = "v1"
        elif preset == "claude":
            v = O(hook_event_name="PostToolUse" if ai else "PreToolUse", transcript_path=W.tdir + "/none.jsonl", cwd=cwd,
                  tool_input=(O(file_path=files[0]) if files else O()))
            psym = "claude"
        else:
            v = O(hook_event_name="after_edit" if ai else "before_edit", tool="tab", model="m", repo_working_dir=rwd,
                  will_edit_filepaths=(None if ai else files), edited_filepaths=(files if ai else None), completion_id="c")
            psym = "aitab"
        text = jtext(v)
        before, _ = W.read_logs()
        if deleted_cwd:
            d = os.path.join(W.root, "gone_cwd")
            os.makedirs(d)
            cmd = "cd %s && rmdir %s && exec %s checkpoint %s --hook-input \"$P\"" % (d, d, C.GITAI, preset)
            p = subprocess.run(["sh", "-c", cmd], env=dict(W.sim.env(W.env_extra), P=text), stdout=subprocess.PIPE, stderr=subprocess.PIPE)
            rc, err = p.returncode, p.stderr.decode("utf-8", "replace")
        else:
            rc, err = W.run(preset, text, cwd=cwd, via=r.pick(["argv", "argv", "stdin"]))
        after, probs = W.read_logs()
        new = W.new_entries(before, after)
        res = {"idx": idx, "viol": [], "known": [], "tie": [], "obs": [], "features": sorted(W.repos), "cwd": cwd_name,
               "rwd": rwd_name, "preset": preset, "mode": "primary" if P else "file-based", "P": P,
               "nlisted": len(listed), "deleted_cwd": deleted_cwd,
               "sample": {"cwd": cwd_name, "rwd": rwd, "files": [short(f, 80) for f in (files or [])], "primary": P,
                          "new_entries": new[:4], "rc": rc}}
        desc = {"kind": "layout", "features": sorted(W.repos), "cwd": cwd, "payload": short(text, 1200), "preset": preset,
                "edited": edited, "bystanders": bystanders, "rc": rc, "stderr": err_tail(err, 500), "new_entries": new[:8]}
        # ---- oracle
        bad = basic_oracle(rc, err)
        unsaved = dirty_interpretations(text, [W.repos[P]["workdir"] if P else None, None if deleted_cwd else cwd,
                                               eff if (preset != "agent-v1" and rwd is not None) else None])
        bad += probs + safety_check(W, new, unsaved)
        impl = {(rp, W.entry_real(rp, f)) for rp, _, f in new}
        # the workspace boundary in file-based mode (none at all when the process cwd is gone and nothing replaced it)
        base_dir = eff if (preset != "agent-v1" and rwd is not None) else (None if deleted_cwd else cwd)
        base_real = os.path.realpath(base_dir) if (base_dir and os.path.isdir(base_dir)) else None
        no_boundary = base_dir is None
        if files is not None:
            for s, real, chk in listed:
                if not chk or real is None:
                    continue
                want = W.innermost(real)
                if want is None:
                    continue
                if (want, real) not in impl:
                    if known_drop(W, P, base_real, real, want, no_boundary):
                        res["known"].append("C20-K1")
                    else:
                        bad.append(f"listed file {s!r} ({real}) belongs to repository {want} but was recorded nowhere")
            # bystanders: files nobody listed
            by_real = {os.path.realpath(b) for b in bystanders}
            over = [(rp, q) for rp, q in impl if q in by_real]
            if over and files:
                jb = W.repos[P]["workdir"] if P else (base_real or cwd)

                def interp(s):
                    return s if os.path.isabs(s) else os.path.join(jb, s)
                # a listed directory lists everything below it
                dirs = [os.path.realpath(interp(s)) for s in files
                        if "\0" not in s and (os.path.isabs(s) or not (deleted_cwd and P is None)) and os.path.isdir(interp(s))]
                over = [(rp, q) for rp, q in over if not any(q == d or q.startswith(d.rstrip(os.sep) + os.sep) for d in dirs)]
                if over:
                    bad.append(f"unlisted (human) files recorded by this checkpoint: {over[:3]}")
        if bad:
            res["viol"].append(dict(desc, problems=bad[:4]))
        # ---- correspondence with the model's routing
        hook_sx = "(json " + jsx(v) + ")"
        res["model_in"] = model_route_input(W, psym, None if deleted_cwd else cwd, hook_sx, rwd, files)
        res["files_given"] = bool(files)
        ldirs = []
        for f in files or []:
            if "\0" in f:
                continue
            for b in ([W.repos[P]["workdir"]] if P else []) + ([base_real] if base_real else []) + ([] if deleted_cwd else [cwd]):
                a = f if os.path.isabs(f) else os.path.join(b, f)
                if os.path.isdir(a):
                    ldirs.append(os.path.realpath(a))
        res["listed_dirs"] = sorted(set(ldirs))          # a listed directory lists everything below it
        # dirty_files are not modelled: a buffer is recorded under the canonical location of its key (a key spelled through a
        # symlink lands on the real file) in the repository that contains it — the safety oracle above checks exactly that
        res["dirty_reals"] = sorted(os.path.realpath(q) for q in unsaved if os.path.exists(q))
        res["tie_skip"] = ((rwd is not None and not os.path.isabs(rwd) and preset != "agent-v1")
                           or any(len(pieces(f)) > 64 or (f and not f.startswith("/") and not pieces(f)) for f in files or []))
        res["impl"] = sorted(impl)
        res["edited"] = edited
        res["rc"] = rc
        res["panic"] = any(m in err for m in PANIC_MARKERS)
        res["desc"] = desc
        # ---- afterwards everything still works
        for n, rp in W.repos.items():
            rc2, err2 = W.run(None, None, cwd=rp["workdir"], extra_args=["--show-working-log"])
            if rp["kind"] != "bare" and basic_oracle(rc2, err2):
                res["viol"].append({"kind": "show-working-log after layout case", "repo": n, "problems": basic_oracle(rc2, err2),
                                    "stderr": err_tail(err2), "case": desc})
        return res
    finally:
        shutil.rmtree(W.root, ignore_errors=True)


# ------------------------------------------------------------------ E. path_is_in_workdir in-process (harness) vs the model
SIBLINGS = ["proj", "proj-docs", "proj2", "pro", "proj.d", "Proj"]


def inwd_cases(args):
    """(workdir, path) pairs over sibling repositories whose names are string prefixes of each other"""
    base, seed, n = args
    r = C.Rng(seed).fork("c20-inwd")
    sim = Sim(base, "inwd")
    root = os.path.realpath(sim.base)
    ws = os.path.join(root, "ws")
    for name in SIBLINGS:
        d = os.path.join(ws, name)
        os.makedirs(os.path.join(d, "sub"), exist_ok=True)
        subprocess.run([REALGIT, "init", "-q", d], env=sim.env(), stdout=subprocess.DEVNULL, stderr=subprocess.DEVNULL)
        _w(os.path.join(d, "f.txt"), "f\n")
        _w(os.path.join(d, "sub", "g.txt"), "g\n")
    _w(os.path.join(ws, "plain", "p.txt"), "p\n")
    os.symlink("proj", os.path.join(ws, "link_to_proj"))
    os.symlink("../proj-docs", os.path.join(ws, "proj", "lnk_out"))
    os.symlink("../proj/sub", os.path.join(ws, "proj-docs", "lnk_in"))
    os.symlink("../../proj2/f.txt", os.path.join(ws, "proj", "sub", "lnk_file"))
    names = SIBLINGS + ["plain", "link_to_proj", "projX", "proj-", "pr"]
    tails = ["f.txt", "sub/g.txt", "sub", "", "ghost.txt", "sub/ghost/deep.txt", "lnk_out/f.txt", "lnk_in/g.txt", "sub/lnk_file",
             "sub/../f.txt", "../proj-docs/f.txt", "../proj/f.txt", "../proj2/../proj/sub/g.txt", "nodir/../f.txt", "./f.txt",
             "sub//g.txt", "sub/", ".git/config", "..", "../..", "f.txt/", "f.txt/x"]
    cases = []
    for k in range(n):
        repo = r.pick(SIBLINGS)
        nm = r.pick(names)
        tail = r.pick(tails)
        form = r.weighted([(60, "abs"), (15, "rel"), (10, "slashes"), (10, "detour"), (5, "root")])
        p = os.path.join(ws, nm, tail) if tail else os.path.join(ws, nm)
        if form == "rel":
            # relative to the harness cwd (= ws); the callers always join first, so only existing relative paths
            # (canonicalised by the function itself) are meaningful
            if os.path.exists(p):
                p = os.path.join(nm, tail) if tail else nm
        elif form == "slashes":
            p = p.replace("/" + nm, "//" + nm + "/.", 1) + r.pick(["", "/", "//"])
        elif form == "detour":
            p = os.path.join(ws, r.pick(names), "..", nm, tail)
        elif form == "root":
            p = r.pick(["/", "/etc/hostname", ws, ws + "/", root, ""])
        cases.append((repo, p))
    impl_in, model_in = [], []
    for i, (repo, p) in enumerate(cases):
        rd = os.path.join(ws, repo)
        impl_in.append((str(i), C.sx(C.cps(rd)) + " " + C.sx(C.cps(p))))
        raw = absolutize(comps(ws), p)
        try:
            sp = p if os.path.isabs(p) else os.path.join(ws, p)       # as written: `file.txt/` does not exist
            if p and os.path.isdir(sp):
                st = f"(dir {sx_path(comps(os.path.realpath(sp)))})"
            elif p and os.path.exists(sp):
                st = f"(file {sx_path(comps(os.path.realpath(sp)))})"
            else:
                st = "missing"
        except (OSError, ValueError):
            st = "missing"
        model_in.append((str(i), f"({sx_path(comps(rd))} normal) {st} {sx_raw(raw)}"))
    p = subprocess.run([C.VHARNESS, "c20-inwd"], cwd=ws, env=sim.env(), input="".join(f"{i}\t{b}\n" for i, b in impl_in),
                       stdout=subprocess.PIPE, stderr=subprocess.DEVNULL, text=True)
    impl = dict(l.split("\t", 1) for l in p.stdout.splitlines() if "\t" in l)
    # independent expectation: component-wise containment of the resolved location
    exp = {}
    for i, (repo, pth) in enumerate(cases):
        rd = os.path.join(ws, repo)
        a = pth if os.path.isabs(pth) else os.path.join(ws, pth)
        res = os.path.realpath(a) if (pth and os.path.exists(a)) else os.path.normpath(a)
        exp[str(i)] = "1" if (res == rd or res.startswith(rd + os.sep)) else "0"
    shutil.rmtree(sim.base, ignore_errors=True)
    return {"cases": [(repo, pth) for repo, pth in cases], "impl": impl, "model_in": model_in, "expected": exp}


# ------------------------------------------------------------------ hook-argument variants: status / panic vs the model
def hook_variants(args):
    base, seed = args
    W = World(base, "hookv", features=())
    ra = W.repos["ra"]["root"]
    out = []
    try:
        good = jtext(O(type="human", repo_working_dir=ra, will_edit_filepaths=["a0.txt"]))
        runs = [("none", ["agent-v1"], None), ("missing", ["agent-v1", "--hook-input"], None),
                ("empty", ["agent-v1", "--hook-input", "  "], None), ("stdin-empty", ["agent-v1", "--hook-input", "stdin"], b" \n"),
                ("stdin-err", ["agent-v1", "--hook-input", "stdin"], b"\xff\xfe{}"),
                ("argv-bad", ["agent-v1", "--hook-input", b"\xff\xfe{}"], None),
                ("notjson", ["agent-v1", "--hook-input", "{not json"], None),
                ("(json " + jsx(O(type="human", repo_working_dir=ra, will_edit_filepaths=["a0.txt"])) + ")",
                 ["agent-v1", "--hook-input", good], None)]
        for preset_sym, first in (("v1", "agent-v1"), ("claude", "claude"), ("codex", "codex"), ("aitab", "ai_tab"),
                                  ("mock", "mock_ai"), ("nopreset", "no-such-preset")):
            for hook, argv, stdin in runs:
                if hook.startswith("(json") and preset_sym != "v1":
                    continue
                argv2 = [first] + argv[1:]
                p = subprocess.run([C.GITAI, "checkpoint"] + argv2, cwd=ra, env=W.sim.env(), input=stdin,
                                   stdout=subprocess.PIPE, stderr=subprocess.PIPE)
                err = p.stderr.decode("utf-8", "replace")
                out.append({"preset": preset_sym, "hook": hook, "rc": p.returncode, "panic": any(m in err for m in PANIC_MARKERS),
                            "model_in": model_route_input(W, preset_sym, ra, hook, None, None)})
        return out
    finally:
        shutil.rmtree(W.root, ignore_errors=True)


# ------------------------------------------------------------------ D. witnesses of the known classes
def _ai_payload(rwd, files, cid="w"):
    return jtext(O(type="ai_agent", repo_working_dir=rwd, edited_filepaths=files, transcript=O(messages=[O(type="user", text="go")]),
                   agent_name="toolx", model="m1", conversation_id=cid))


def witness(args):
    base, which = args
    W = World(base, "wit" + which, features=("inner",)).stores()
    ra, rb = W.repos["ra"]["root"], W.repos["rb"]["root"]
    try:
        if which == "K1":
            _w(ra + "/inner/i0.txt", "ai\n", "a")
            rc, err = W.run("agent-v1", _ai_payload(ra, ["inner/i0.txt"]), cwd=ra)
            logs, _ = W.read_logs()
            return rc == 0 and not any(ents for ents in logs.values())
        if which == "K2":
            _w(ra + "/a1.txt", "a person typed this\n", "a")
            _w(rb + "/b0.txt", "ai\n", "a")
            rc, err = W.run("agent-v1", _ai_payload(ra, [rb + "/b0.txt"]), cwd=ra)
            logs, _ = W.read_logs()
            return any(k == "AiAgent" and "a1.txt" in fs for k, fs in logs["ra"])
        if which == "K3":
            d = W.root + "/gone"
            os.makedirs(d)
            p = subprocess.run(["sh", "-c", "cd %s && rmdir %s && exec %s checkpoint agent-v1 --hook-input \"$P\"" % (d, d, C.GITAI)],
                               env=dict(W.sim.env(), P=_ai_payload(ra, ["a0.txt"])), stdout=subprocess.PIPE, stderr=subprocess.PIPE)
            return p.returncode != 0 and b"panicked at" in p.stderr
        if which == "K4":
            p = subprocess.run([C.GITAI, "checkpoint", "agent-v1", "--hook-input", b"\xff\xfe{}"], cwd=ra, env=W.sim.env(),
                               stdout=subprocess.PIPE, stderr=subprocess.PIPE)
            return p.returncode != 0
        if which == "K5":
            sess = W.tdir + "/copilot_session_ovf.json"
            _w(sess, json.dumps({"requests": [{"timestamp": 9223372036854775807, "message": {"text": "hi"},
                                               "response": [{"value": "answer"}], "result": {"timings": {"totalElapsed": 5}}}]}))
            _w(ra + "/a0.txt", "ai\n", "a")
            rc, err = W.run("github-copilot", jtext(O(hook_event_name="after_edit", workspace_folder=ra, chat_session_path=sess,
                                                      edited_filepaths=["a0.txt"])), cwd=ra)
            return rc != 0 and "panicked at" in err
        if which == "K6":
            os.symlink("../rb/b1.txt", ra + "/lnk")
            _w(rb + "/b1.txt", "content that lives in the sibling repository\n", "a")
            rc, err = W.run("agent-v1", _ai_payload(ra, None), cwd=ra)
            logs, _ = W.read_logs()
            return any("lnk" in fs for k, fs in logs["ra"])
        if which == "G1":
            rad = W.repos["rad"]["root"]
            f = rad + "/d0.txt"
            _w(f, "ai\n", "a")
            v = O(type="ai_agent", repo_working_dir=ra, edited_filepaths=[f], transcript=O(messages=[]), agent_name="toolx",
                  model="m1", conversation_id="g1", dirty_files=Obj([(f, open(f).read())]))
            rc, err = W.run("agent-v1", jtext(v), cwd=ra)
            logs, _ = W.read_logs()
            in_own = any("d0.txt" in fs for k, fs in logs["rad"])
            in_ra = any(fs for k, fs in logs["ra"])
            return not (rc == 0 and in_own and not in_ra)
        if which == "G2":
            # every preset that can send a pre-edit (Human) report, and its post-edit twin: the only listed file belongs
            # to the sibling repository rb; ra (cwd / repo_working_dir) has dirty files nobody listed and must stay untouched
            f = rb + "/b0.txt"
            t = W.tdir
            cs = t + "/copilot_session_1.json"
            reports = [
                ("agent-v1", O(type="human", repo_working_dir=ra, will_edit_filepaths=[f])),
                ("agent-v1", O(type="ai_agent", repo_working_dir=ra, edited_filepaths=[f], transcript=O(messages=[]),
                               agent_name="toolx", model="m1", conversation_id="g2")),
                ("claude", O(hook_event_name="PreToolUse", transcript_path=t + "/claude.jsonl", cwd=ra, tool_input=O(file_path=f))),
                ("claude", O(hook_event_name="PostToolUse", transcript_path=t + "/claude.jsonl", cwd=ra, tool_input=O(file_path=f))),
                ("gemini", O(hook_event_name="BeforeTool", session_id="s1", transcript_path=t + "/gemini.json", cwd=ra,
                             tool_input=O(file_path=f))),
                ("continue-cli", O(hook_event_name="PreToolUse", session_id="s1", transcript_path=t + "/continue.json", cwd=ra,
                                   model="m", tool_input=O(file_path=f))),
                ("github-copilot", O(hook_event_name="before_edit", workspace_folder=ra, will_edit_filepaths=[f])),
                ("github-copilot", O(hook_event_name="after_edit", workspace_folder=ra, chat_session_path=cs, session_id="s1",
                                     edited_filepaths=[f])),
                ("github-copilot", O(hookEventName="PreToolUse", cwd=ra, toolName="create_file", sessionId="s1",
                                     toolInput=O(filePath=f), transcriptPath=cs)),
                ("amp", O(hook_event_name="PreToolUse", tool_use_id="tu1", thread_id="T-1", cwd=ra, edited_filepaths=[f])),
                ("ai_tab", O(hook_event_name="before_edit", tool="tab", model="m", repo_working_dir=ra, will_edit_filepaths=[f])),
                ("ai_tab", O(hook_event_name="after_edit", tool="tab", model="m", repo_working_dir=ra, edited_filepaths=[f])),
                ("droid", O(cwd=ra, hookEventName="PreToolUse", tool_name="Edit", tool_input=O(filePath=f))),
                ("opencode", O(hook_event_name="PreToolUse", session_id="s1", cwd=ra, tool_input=O(filePath=f))),
                ("opencode", O(hook_event_name="PostToolUse", session_id="s1", cwd=ra, tool_input=O(filePath=f))),
            ]
            bad = []
            for k, (preset, v) in enumerate(reports):
                _w(ra + "/a1.txt", f"somebody else's unreported edit {k}\n", "a")
                _w(ra + "/new_unlisted.txt", f"x{k}\n", "a")
                _w(f, f"edit {k}\n", "a")
                before, _ = W.read_logs()
                rc, err = W.run(preset, jtext(v), cwd=ra)
                after, _ = W.read_logs()
                new = W.new_entries(before, after)
                if rc != 0 or any(rp == "ra" for rp, _, _ in new) or ERR_MARK[preset] in err:
                    bad.append((preset, jtext(v)[:120], rc, new))
            return bool(bad)
        if which == "K8":
            # (a) the buffer of a nested repository's file must not be recorded in the outer repository
            f = ra + "/inner/i0.txt"
            _w(f, "ai\n", "a")
            v = O(type="ai_agent", repo_working_dir=ra, edited_filepaths=["a0.txt", f], transcript=O(messages=[]), agent_name="toolx",
                  model="m1", conversation_id="k8", dirty_files=Obj([(f, open(f).read())]))
            _w(ra + "/a0.txt", "ai\n", "a")
            rc, err = W.run("agent-v1", jtext(v), cwd=ra)
            logs, _ = W.read_logs()
            nested_in_outer = any(any(x.startswith("inner/") for x in fs) for k, fs in logs["ra"])
            # (b) a relative key (a file of ra) must not become a phantom entry of the repository the request is forwarded to
            _w(ra + "/a1.txt", "ai\n", "a")
            _w(rb + "/b0.txt", "ai\n", "a")
            v = O(type="ai_agent", repo_working_dir=ra, edited_filepaths=["a1.txt", rb + "/b0.txt"], transcript=O(messages=[]),
                  agent_name="toolx", model="m1", conversation_id="k8b",
                  dirty_files=Obj([("a1.txt", open(ra + "/a1.txt").read()), (rb + "/b0.txt", open(rb + "/b0.txt").read())]))
            rc2, err2 = W.run("agent-v1", jtext(v), cwd=ra)
            logs, _ = W.read_logs()
            phantom = any("a1.txt" in fs for k, fs in logs["rb"])
            return rc != 0 or rc2 != 0 or nested_in_outer or phantom
        if which == "K7":
            _w(ra + "/a0.txt", "ai\n", "a")
            _w(ra + "/sub/a2.txt", "ai\n", "a")
            rc, err = W.run("agent-v1", _ai_payload(ra, ["a0.txt", "../ra/sub/a2.txt"]), cwd=ra)
            logs, _ = W.read_logs()
            return rc == 0 and not logs["ra"]
        return False
    finally:
        shutil.rmtree(W.root, ignore_errors=True)


KNOWN = {
    "K1": "C20-K1 a listed file of a repository is recorded nowhere: it lies inside the work dir of the repository discovered from "
          "repo_working_dir but belongs to a nested repository / submodule / work tree below it (or that repository is bare), or it "
          "belongs to a submodule, or (workspace mode) its repository is outside the workspace boundary",
    "K4": "C20-K4 the hook payload is passed on the command line and is not valid UTF-8: clap refuses the arguments, exit status 2",
    "K6": "C20-K6 an untracked / modified symbolic link inside the work tree pointing to a file of another repository is read "
          "through by a whole-tree checkpoint: the other repository's content is attributed under the link's name",
}
# repaired in /repo: the witnesses are regression tests that must pass
FIXED = {
    "K2": "fixed C20-K2 (a request naming only foreign / unusable paths scanned the whole work tree and recorded unlisted files)",
    "K3": "fixed C20-K3 (checkpoint panicked when the process working directory no longer exists)",
    "K5": "fixed C20-K5 (copilot session timestamp + totalElapsed overflow panic)",
    "K7": "fixed C20-K7 (one listed path git refuses made git status fail and lost every file of that pass)",
    "K8": "fixed C20-K8 (dirty_files: the buffer of a nested repository's file was recorded in the outer repository; a relative key "
          "was recorded as a non-existent file of every other repository the request was forwarded to)",
    "G2": "guard: a pre-edit (Human, will_edit_filepaths) or post-edit report of any preset whose only listed file belongs to "
          "another repository records nothing in the repository of the working directory, whatever is dirty there",
    "G1": "guard: a file of a sibling repository whose directory name extends this repository's name (ra / ra-docs) is recorded "
          "in its own repository only (work-dir membership is component-wise, not a string prefix)",
}


def load_inventory():
    sys.path.insert(0, os.path.join(C.VERIF, "tools"))
    import gen_from_source as L
    spec = importlib.util.spec_from_file_location("gen_GenIngest", os.path.join(C.VERIF, "tools", "gen", "GenIngest.py"))
    g = importlib.util.module_from_spec(spec)
    spec.loader.exec_module(g)
    rows, reach, nfn = g.inventory(L)
    return rows, len(reach), nfn


# ------------------------------------------------------------------ the check
def run(ctx):
    quick = ctx.tier == "quick"
    base = ctx.scratch
    obligations, violations, known = [], [], set()
    PM = {"agent-v1": "v1", "claude": "claude", "codex": "codex", "ai_tab": "aitab"}

    # ---- panic-site inventory (reported; its sites are what the generators aim at)
    try:
        rows, nreach, nfn = load_inventory()
        inv_tot = {}
        for _, _, k, c in rows:
            inv_tot[k] = inv_tot.get(k, 0) + c
        inventory = {"scanned_functions": nfn, "reachable_from_handle_checkpoint": nreach, "totals": inv_tot,
                     "sites": [{"file": a, "function": b, "kind": c, "count": d} for a, b, c, d in rows]}
        obligations.append(("monitor:panic-site inventory regenerated", True, json.dumps(inv_tot, sort_keys=True)))
    except Exception as e:  # noqa
        inventory = {"error": str(e)}
        obligations.append(("monitor:panic-site inventory regenerated", False, str(e)))

    # ---- A. decoder correspondence
    nb, per = (16, 70) if quick else (64, 700)
    res = C.parallel_map(decoder_batch, [(base, ctx.seed, i, per) for i in range(nb)])
    dec = []
    for b in res:
        if isinstance(b, dict) and "error" in b:
            violations.append(("engine error in decoder batch " + b["error"][-300:], b))
        else:
            dec.extend(b)
    dec_mis, dec_hist, dec_distinct = [], {}, set()
    mod = C.run_cases(C.driver_path("ingest"), "c20-decode", [(str(i), PM[x["preset"]] + " " + x["sx"]) for i, x in enumerate(dec)]) \
        if ctx.model_ok else {}
    n_acc = 0
    for i, x in enumerate(dec):
        key = x["preset"] + ":" + x["label"]
        dec_hist[key] = dec_hist.get(key, 0) + 1
        dec_distinct.add((x["preset"], x["text"]))
        if x["bad"]:
            violations.append((f"{x['preset']} payload {short(x['text'], 200)}: {x['bad']}",
                               {"kind": "decoder", "preset": x["preset"], "payload": short(x["text"], 3000), "problems": x["bad"],
                                "stderr": x["err"]}))
        if ctx.model_ok:
            m = mod.get(str(i), "?")
            n_acc += (not m.startswith("err:"))
            if m.startswith("err:") != x["rejected"] or "SHAPE" in m or m == "?":
                dec_mis.append(f"{x['preset']} {short(x['text'], 200)}: model {m} impl {'rejected' if x['rejected'] else 'accepted'}")
    obligations.append(("tie:correspondence decoders (agent-v1, claude, codex, ai_tab) Model/Ingest.v vs binary",
                        ctx.model_ok and not dec_mis, "; ".join(dec_mis[:3]) if dec_mis else ("" if ctx.model_ok else "model did not build")))

    # ---- hook argument variants
    hv = hook_variants((base, ctx.seed))
    hv_mis = []
    if ctx.model_ok:
        hm = C.run_cases(C.driver_path("ingest"), "c20-route", [(str(i), x["model_in"]) for i, x in enumerate(hv)], shards=1)
        for i, x in enumerate(hv):
            out = hm.get(str(i), "?")
            if not out.startswith("(status"):
                hv_mis.append(f"{x['preset']}/{x['hook'][:20]}: model output {out[:80]}")
                continue
            xs = {y[0]: y[1:] for y in C.sx_parse_many(out)}
            if xs["status"][0] != x["rc"] or bool(xs["panic"][0]) != x["panic"]:
                hv_mis.append(f"{x['preset']}/{x['hook'][:20]}: model status {xs['status'][0]} impl {x['rc']}")
    for x in hv:
        if (x["rc"] != 0 or x["panic"]):
            if x["hook"] == "argv-bad":
                known.add(KNOWN["K4"])
            else:
                violations.append((f"hook variant {x['hook'][:30]} with preset {x['preset']}: exit {x['rc']}", {"kind": "hook-variant", **x}))
    obligations.append(("tie:correspondence exit status for every --hook-input form x preset", ctx.model_ok and not hv_mis, "; ".join(hv_mis[:3])))

    # ---- E. path_is_in_workdir: real function (in-process) vs model vs independent expectation
    iw = inwd_cases((base, ctx.seed, 600 if quick else 20000))
    iw_mis, iw_bad = [], 0
    im = C.run_cases(C.driver_path("ingest"), "c20-inwd", iw["model_in"]) if ctx.model_ok else {}
    for i, (repo, pth) in enumerate(iw["cases"]):
        a, e = iw["impl"].get(str(i)), iw["expected"][str(i)]
        if a != e:
            iw_bad += 1
            violations.append((f"path_is_in_workdir(work dir {repo!r}, {pth!r}) = {a}, component-wise containment says {e}",
                               {"kind": "path_is_in_workdir", "workdir": "ws/" + repo, "path": pth, "impl": a, "expected": e,
                                "siblings": SIBLINGS}))
        if ctx.model_ok and im.get(str(i)) != a:
            iw_mis.append(f"work dir {repo!r} path {pth!r}: model {im.get(str(i))} impl {a}")
    obligations.append(("tie:correspondence path_is_in_workdir (harness, in-process) vs Model/Ingest.v in_wd on sibling-name pairs",
                        ctx.model_ok and not iw_mis, "; ".join(iw_mis[:3])))

    # ---- B. payload matrix
    reps = 1 if quick else 12
    items = [(base, ctx.seed, k * 100 + i, p, 50) for k in range(reps) for i, p in enumerate(PRESETS)]
    mres = C.parallel_map(matrix_batch, items)
    mx_runs, mx_acc, mx_rec, mx_labels, samples = 0, 0, 0, {}, []
    per_preset = {}
    for it, x in zip(items, mres):
        if "error" in x:
            violations.append(("engine error in payload matrix " + x["error"][-300:], x))
            continue
        st = x["stats"]
        mx_runs += st["runs"]
        mx_acc += st["accepted"]
        mx_rec += st["recorded"]
        pp = per_preset.setdefault(it[3], {"runs": 0, "accepted": 0, "recorded_something": 0})
        pp["runs"] += st["runs"]
        pp["accepted"] += st["accepted"]
        pp["recorded_something"] += st["recorded"]
        for k, v in st["labels"].items():
            mx_labels[k] = mx_labels.get(k, 0) + v
        for v in x["violations"]:
            violations.append((f"{v.get('preset', '')} {v.get('label', v['kind'])}: {v['problems'][:2] if 'problems' in v else v}", v))
        if len(samples) < 4:
            samples.extend(x["samples"][:1])

    # ---- C. layout cases
    nl = 64 if quick else 1500
    lres = C.parallel_map(layout_case, [(base, ctx.seed, i) for i in range(nl)])
    ok = [x for x in lres if "error" not in x]
    for x in lres:
        if "error" in x:
            violations.append(("engine error in layout case " + x["error"][-300:], x))
    lay_mis, lay_hist, hits = [], {}, {}
    lmod = C.run_cases(C.driver_path("ingest"), "c20-route", [(str(x["idx"]), x["model_in"]) for x in ok]) if ctx.model_ok else {}
    lay_distinct = set()
    for x in ok:
        key = f"{x['preset']}/{x['mode']}/cwd={x['cwd']}"
        lay_hist[key] = lay_hist.get(key, 0) + 1
        lay_distinct.add(x["desc"]["payload"] + x["desc"]["cwd"].split("/ws")[-1] + ",".join(x["features"]))
        for k in x["known"]:
            hits[k] = hits.get(k, 0) + 1
            known.add(KNOWN[k.split("-")[1]])
        for v in x["viol"]:
            violations.append((f"layout case {x['idx']}: {v.get('problems', v)}"[:400], v))
        if ctx.model_ok and not x["tie_skip"]:
            out = lmod.get(str(x["idx"]), "?")
            if not out.startswith("(status"):
                lay_mis.append(f"case {x['idx']}: model output {out[:100]}")
                continue
            xs = {y[0]: y[1:] for y in C.sx_parse_many(out)}
            st, pn, sa = xs["status"][0], xs["panic"][0], xs["scope-all"][0]
            ed = set(x["edited"])
            mrec = set()
            for rec in xs.get("records", []):
                (root, kind), q = rec
                mrec.add(("/" + "/".join(C.uncps(c) for c in root), "/" + "/".join(C.uncps(c) for c in q)))
            roots = {"ra": "/ws/ra", "rad": "/ws/ra-docs", "inner": "/ws/ra/inner", "rb": "/ws/rb", "sm": "/ws/ra/sm", "wt": "/ws/wt",
                     "bare": "/ws/bare.git", "bare_in": "/ws/ra/b2.git"}
            impl = {(rp, q) for rp, q in x["impl"] if q in ed}
            m2 = set()
            for root, q in mrec:
                if q in ed:
                    nm = [n for n, sfx in roots.items() if root.endswith(sfx)]
                    m2.add((nm[0] if nm else root, q))
            impl = {(rp, q) for rp, q in impl
                    if (rp, q) in m2 or not (q in x["dirty_reals"]
                                             or any(q == d or q.startswith(d.rstrip("/") + "/") for d in x["listed_dirs"]))}
            okrec = (m2 == impl) if (x["files_given"] and not sa) else (m2 <= impl or not x["files_given"])
            if not okrec or st != x["rc"] or bool(pn) != x["panic"]:
                lay_mis.append(f"case {x['idx']} ({key}): model records {sorted(m2)} status {st} panic {pn}; "
                               f"impl {sorted(impl)} status {x['rc']} panic {x['panic']}; payload {x['desc']['payload'][:300]}")
    obligations.append(("tie:correspondence routing (records, status, panic) Model/Ingest.v vs binary on generated layouts",
                        ctx.model_ok and not lay_mis, "; ".join(lay_mis[:2]) if lay_mis else ("" if ctx.model_ok else "model did not build")))

    # ---- D. witnesses: open classes must still fail (else the entry is stale), repaired ones must pass
    wkeys = sorted(KNOWN) + sorted(FIXED)
    wres = C.parallel_map(witness, [(base, k) for k in wkeys])
    for k, w in zip(wkeys, wres):
        if isinstance(w, dict):
            violations.append((f"engine error in witness {k}: " + w["error"][-300:], w))
        elif k in KNOWN and w:
            known.add(KNOWN[k])
        elif k in FIXED and w:
            violations.append((f"regression: {FIXED[k]}", {"kind": "fixed-witness", "class": "C20-" + k,
                                                                                  "what": FIXED[k]}))

    evaluations = len(dec) + len(hv) + mx_runs + len(ok) + len(KNOWN) + len(FIXED) + len(iw['cases'])
    return {
        "obligations": obligations,
        "violations": violations,
        "known_seen": sorted(known),
        "searched": f"{len(dec)} decoder values, {len(hv)} hook-argument forms, {mx_runs} payloads over {len(PRESETS)} presets, "
                    f"{len(ok)} layout cases; decoder mismatches {len(dec_mis)}, routing mismatches {len(lay_mis)}",
        "coverage": {
            "evaluations": evaluations,
            "distinct_nontrivial": len(dec_distinct) + len(lay_distinct) + mx_acc,
            "rule": "decoder: JSON values (valid shapes, one/two structural mutations at any field incl. nested transcript/messages, "
                    "sequence forms, tag variants), distinct by (preset, text); matrix: per preset valid shapes, wrong type and missing "
                    "at every top-level field, mutations, truncations, non-JSON, 10000-deep nesting, 1-5 MB strings, raw NUL / invalid "
                    "UTF-8 on stdin, BOM, blank, duplicate keys, argv limit — counted non-trivial when the preset accepted the payload; "
                    "layouts: features (nested, submodule, work tree, bare x2, symlinks) x cwd x repo_working_dir x 1-4 listed paths "
                    "in several spellings + bystander edits, distinct by payload+cwd+features",
            "samples": samples + [x["sample"] for x in ok[:3]],
            "input_distribution": {"decoder": dec_hist, "matrix_labels": mx_labels, "matrix_per_preset": per_preset,
                                   "layout": lay_hist},
            "decoder_accepted_by_model": n_acc,
            "presets_driven_offline": PRESETS + ["mock_ai", "(no preset)"],
            "known_class_hits_in_random_runs": hits,
            "correspondence_mismatches": len(dec_mis) + len(lay_mis) + len(hv_mis),
            "panic_site_inventory": inventory,
        },
    }
