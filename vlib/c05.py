"""C05 — every authorship note is well-formed, self-contained and matches its commit.

Tie:   (T) Gen/GenNotes.v regenerated from refs.rs / rebase_authorship.rs / virtual_attribution.rs /
           working_log.rs (fan-out split, D/D/M command shape, lookup order, `human`, remap field + whitespace);
       (C) Model/NotesTree.v and Model/NoteOk.v (extracted) against the real functions, in-process:
           notes_path_for_object, parse_batch_check_blob_oid, build_file_attestation_from_line_attributions,
           VirtualAttributions::to_authorship_log, upsert_file_attestation, try_remap_base_commit_sha_field, and —
           on real repositories whose notes tree was laid out by hand with mktree — notes_add_batch and
           note_blob_oids_for_commits against batch_write / lookup, git's own reader against git_lookup.
Oracle (independent of the model): after EVERY step of generated histories the notes ref is listed and every
       note is parsed by an independent strict v3 parser and compared with its commit (files, line counts, range
       order, prompt records, base, no human author; one tree entry per annotated object); the fan-out matrix
       (hand-made layouts of depth 0/1/2 and a 70 000-note ref laid out by git itself) under note-writing operations;
       the remap helper and the attestation builders on generated inputs.
"""
import json
import os
import re
import shutil
import subprocess

from . import common as C
from .gitsim import Sim, session_hash
from .world import World, TOOL, SESSIONS

GEN_FILES = ["GenNotes"]
DRIVERS = ["notes"]
THEOREMS = ["C05_batch_unique", "C05_batch_layout", "C05_lookup_complete", "C05_batch_preserves_others",
            "C05_all_layouts", "C05_batch_unique_any_layout", "C05_lookup_complete_any_layout",
            "C05_fanout2_refuted", "C05_unique_keysb_spec", "C05_notes_path_components",
            "C05_attestation_wf", "C05_build_ranges_ok", "C05_to_authorship_log_spec", "C05_upsert_spec", "C05_replay_refuted", "C05_squash_note_ok", "C05_merge_skips_absent", "C05_squash_fallback_refuted",
            "C05_remap_after_divider", "C05_remap_base", "C05_remap_marker_fixed", "C05_gen_constants",
            "C05_nonvacuous_tree", "C05_nonvacuous_builder", "C05_nonvacuous_note_ok"]
CLAIM = {
    "text": "Partial proof. Theorems (Coq 8.16.1, closed): (1) on a notes tree of fan-out depth <= 1 the batch writer "
            "(fast-import D flat / D fan-out / M fan-out per entry, last entry of an object wins) keeps exactly one tree "
            "entry per annotated object and the layout, leaves the notes of all other objects untouched, and the batched "
            "lookup (flat path, then aa/rest) returns exactly what git's own notes reader returns; for deeper fan-out the "
            "statement is false of the faithful model (C05_fanout2_refuted) and of the real binary (replayed: two tree "
            "entries for one commit, `git notes show` prints both notes concatenated; lookups miss notes git can read). "
            "(2) both attestation builders emit for ANY line attributions, per author, non-empty sorted non-overlapping "
            "non-adjacent ranges whose line set is exactly the union of that author's intervals, never the author `human`, "
            "each author once; intervals inside 1..line_count give an attestation that passes the note_ok checks. "
            "(3) the base_commit_sha remap replaces exactly the value of the field when the first occurrence of the field "
            "literal is the metadata field; refuted (model and real binary) for a file whose name contains the literal. "
            "The repository-wide statement is decided by an oracle after every step of generated histories with an "
            "independent v3 parser; the rebase / cherry-pick content replay violates it (known class).",
    "design_ref": "DESIGN.md §4 C05",
    "note": "Trusted: Coq kernel; translator GenNotes; ExtrOcamlBasic extraction + d_notes.ml; harness p_c05.rs; world/gitsim "
            "engine. Environment facts about git (validated on every run with hand-made trees): the notes reader accepts "
            "any fan-out depth and concatenates duplicates; fast-import D/M semantics.",
    "technique": "Coq proof over extracted models + translator-regenerated constants + differential correspondence on "
                 "in-process calls and on real repositories + generated-history oracle with an independent parser",
}
TRUSTED_BASE = [
    "Coq 8.16.1 kernel; theorems closed under the global context",
    "tools/gen/GenNotes.py (fan-out split index, fast-import command shape, lookup order, `human`, remap literals)",
    "extraction: ExtrOcamlBasic only; coq/Extract/d_notes.ml; harness/src/p_c05.rs",
    "vlib/c05.py (independent v3 parser, commit comparison), vlib/world.py, vlib/gitsim.py",
    "modelled, not verified: git's notes reader (any fan-out depth, duplicates concatenated), fast-import D/M, "
    "cat-file --batch-check path resolution — each compared with the real git on hand-made trees in every run",
]
ASSUMPTIONS = [
    "object names are '/'-free and longer than two characters (hex object ids)",
    "line numbers fit u32 (type of LineAttribution)",
    "commit dates are after 2025-07-04",
]

HEX = "0123456789abcdef"
HUMAN = "human"
FIELD = '"base_commit_sha"'
WS_OTHER = set(map(chr, [0x0b, 0x0c, 0x0d, 0x85, 0xa0, 0x1680, 0x2028, 0x2029, 0x202f, 0x205f, 0x3000]
                   + list(range(0x2000, 0x200b))))


# ====================================================================== independent v3 parser
HASH_RE = re.compile(r"^[0-9a-f]{16}$|^[0-9a-f]{7}$")
RANGES_RE = re.compile(r"^\d+(?:-\d+)?(?:,\d+(?:-\d+)?)*$")


def parse_v3(raw):
    """Strict reader of the published Git AI Standard v3 (independent of the Rust codec and of the Coq model).
    -> {"problems": [(kind, text)], "files": [(path, [(hash, [(a, b)...])...])...], "prompts": {...}, "base": str}"""
    res = {"problems": [], "files": [], "prompts": {}, "base": None}
    bad = res["problems"].append
    lines = raw.split("\n")
    if "---" not in lines:
        bad(("parse", "no divider line"))
        return res
    i = lines.index("---")
    cur = None
    seen_paths = set()
    for l in lines[:i]:
        if l.startswith(" "):
            m = re.match(r"^  (\S+) (\S+)$", l)
            if not m or cur is None or not RANGES_RE.match(m.group(2)):
                bad(("parse", f"bad entry line {l!r}"))
                continue
            h, rs = m.group(1), m.group(2)
            if not HASH_RE.match(h):
                bad(("hash", f"hash {h!r} is not 16 (or 7) hex characters"))
            rl = []
            for part in rs.split(","):
                a, _, b = part.partition("-")
                rl.append((int(a), int(b) if b else int(a)))
            cur[1].append((h, rl))
        else:
            if l == "":
                bad(("parse", "empty line in the attestation section"))
                continue
            quoted = len(l) >= 2 and l[0] == '"' and l[-1] == '"'
            p = l[1:-1] if quoted else l
            if ((" " in p) or ("\t" in p)) and not quoted:
                bad(("parse", f"path with blanks is not quoted: {l!r}"))
            if p in seen_paths:
                bad(("dup_file", f"two sections for file {p!r}"))
            seen_paths.add(p)
            cur = (p, [])
            res["files"].append(cur)
    for p, ents in res["files"]:
        if not ents:
            bad(("parse", f"file {p!r} listed without entries"))
    try:
        md = json.loads("\n".join(lines[i + 1:]))
    except Exception:
        bad(("parse", "metadata is not JSON"))
        return res
    if not isinstance(md, dict):
        bad(("parse", "metadata is not an object"))
        return res
    if md.get("schema_version") != "authorship/3.0.0":
        bad(("parse", f"schema_version {md.get('schema_version')!r}"))
    if not isinstance(md.get("base_commit_sha"), str):
        bad(("parse", "base_commit_sha missing"))
    pr = md.get("prompts")
    if not isinstance(pr, dict):
        bad(("parse", "prompts missing"))
        pr = {}
    for k, rec in pr.items():
        ok = isinstance(rec, dict) and isinstance(rec.get("agent_id"), dict) \
            and all(isinstance(rec["agent_id"].get(f), str) for f in ("tool", "id", "model")) \
            and isinstance(rec.get("messages"), list) \
            and all(isinstance(rec.get(f), int) for f in ("total_additions", "total_deletions", "accepted_lines")) \
            and (isinstance(rec.get("overriden_lines"), int) or isinstance(rec.get("overridden_lines"), int))
        if not ok:
            bad(("parse", f"prompt record {k!r} lacks a required field"))
    res["prompts"] = pr
    res["base"] = md.get("base_commit_sha")
    return res


def line_count(text):
    if text == "":
        return 0
    return text.count("\n") + (0 if text.endswith("\n") else 1)


def structural_problems(n, self_sha, files_lc):
    """the C05 predicate on a parsed note.  files_lc: path -> line count or None (absent)"""
    out = []
    for p, ents in n["files"]:
        lc = files_lc(p)
        if lc is None:
            out.append(("file_absent", f"note names {p!r}, absent from the commit"))
        for h, rl in ents:
            if h == HUMAN:
                out.append(("human", f"{p!r} lists the human author"))
            if h not in n["prompts"]:
                out.append(("no_prompt", f"{p!r}: hash {h} has no prompt record"))
            prev = 0
            for a, b in rl:
                if a < 1:
                    out.append(("zero", f"{p!r}: line 0"))
                if a > b:
                    out.append(("unsorted", f"{p!r}: inverted range {a}-{b}"))
                if a <= prev and prev > 0:
                    out.append(("unsorted", f"{p!r}: {a}-{b} after a range ending at {prev}"))
                if lc is not None and b > lc:
                    out.append(("line_oob", f"{p!r}: line {b} beyond end of file ({lc} lines)"))
                prev = max(prev, b)
    if n["base"] != self_sha:
        out.append(("base", f"base_commit_sha {n['base']} != annotated commit {self_sha}"))
    return out


def c17_class(p):
    """listed known classes of the text codec that make a note with this path unreadable
    (C17-K1, K3, K5 were repaired in /repo and excuse nothing any more)"""
    if "\n" in p:
        return "C17-K4 path contains a newline"
    return None


def remap_class(p):
    return re.search(re.escape(FIELD) + r"[ \n\t\r]*:[ \n\t\r]*\"", p) is not None


# ====================================================================== notes ref observation
class Sim5(Sim):
    """records the stderr of everything run during the current step (git-ai prints which path it took)"""

    def __init__(self, *a, **k):
        super().__init__(*a, **k)
        self.step_err = []

    def _run(self, argv, cwd=None, env=None, stdin=None, timeout=120):
        r = super()._run(argv, cwd=cwd, env=env, stdin=stdin, timeout=timeout)
        if argv and argv[0] == self.binary:
            self.step_err.append(r[2])
        return r


def ls_notes(sim, cwd=None):
    """[(blob, path)] of refs/notes/ai, or [] when the ref does not exist"""
    rc, out, _ = sim.realgit("ls-tree", "-r", "-z", "refs/notes/ai", cwd=cwd)
    if rc != 0:
        return []
    res = []
    for e in out.split("\0"):
        if e:
            meta, path = e.split("\t", 1)
            res.append((meta.split()[2], path))
    return res


class Checker:
    """after every step: list the notes tree, check key uniqueness, check every new or changed note"""

    def __init__(self, sim):
        self.sim = sim
        self.seen = {}          # object -> blob already checked
        self.n_checked = 0
        self.kinds_ok = 0

    def files_lc(self, obj):
        cache = {}
        present = set(self.sim.ls_files_at(obj))

        def f(p):
            if p not in present:
                return None
            if p not in cache:
                t = self.sim.file_at(obj, p)
                cache[p] = None if t is None else line_count(t)
            return cache[p]
        return f

    def own_diff(self, commit):
        """paths the commit itself changes against its first parent"""
        rc, out, _ = self.sim.realgit("diff-tree", "--root", "--no-commit-id", "--name-only", "-r", "-z", "-m", "--first-parent", commit)
        return {p for p in out.split("\0") if p}

    def step(self):
        """-> list of failures {"commit", "kind", "detail", "paths"}"""
        fails = []
        ents = ls_notes(self.sim)
        by_key = {}
        for blob, path in ents:
            by_key.setdefault(path.replace("/", ""), []).append((blob, path))
        for k, v in by_key.items():
            if len(v) > 1:
                fails.append({"commit": k, "kind": "dup_key", "detail": f"{len(v)} tree entries: {[p for _, p in v]}"})
        for k, v in by_key.items():
            blob = v[0][0]
            if len(v) > 1 or self.seen.get(k) == blob:
                continue
            self.seen[k] = blob
            raw = self.sim.note_raw(k)
            if raw is None:
                fails.append({"commit": k, "kind": "unreadable", "detail": "git notes show fails"})
                continue
            self.n_checked += 1
            n = parse_v3(raw)
            probs = list(n["problems"])
            rc, typ, _ = self.sim.realgit("cat-file", "-t", k)
            if typ.strip() == "commit" and not any(kd == "parse" for kd, _ in probs):
                probs += structural_problems(n, k, self.files_lc(k))
            paths = [p for p, _ in n["files"]]
            for kd, d in probs:
                path = next((p for p in paths if d.startswith(repr(p) + ":") or d.startswith(f"note names {p!r},")), None)
                fails.append({"commit": k, "kind": kd, "detail": d, "paths": paths, "path": path,
                              "in_own_diff": (path in self.own_diff(k)) if path is not None else None})
        return fails


# ====================================================================== (a) generated histories
OPS = [(9, "edit"), (6, "commit"), (2, "commit_partial"), (2, "amend"), (2, "branch"), (2, "switch"),
       (3, "rebase"), (2, "rebase_i"), (2, "cherry_pick"), (1, "reset"), (1, "stash"), (1, "stash_pop"),
       (1, "merge_squash"), (1, "ci_squash")]
REPLAY_OPS = {"rebase", "rebase_i", "cherry_pick"}
REPLAY_KINDS = {"file_absent", "line_oob"}
SLOW_MARKERS = ("Processing commit ", "Processing cherry-picked commit ")

NASTY = ["my file.rs", 'a"b', 'say "hi".txt', "héllo.rs", "日本語.txt", "dir with space/f x.py", "-x", " lead", "trail ",
         "a\tb", "----", "--- ", "a-1-2", "\U0001F600.md", "x y/z w.txt", "'q'.c"]
NASTY_KNOWN = ["---", '"', '"x"', "a\nb", "nb\u00a0", '"base_commit_sha":"x']


def op_ci_squash(w):
    """what a CI job does after a server-side squash merge: the squash commit is made by plain git, then
    `git-ai squash-authorship <base> <new> <old>` rewrites the authorship of the source branch onto it"""
    others = [b for b in w.branches if b != w.cur]
    if not others:
        return None
    if not w._clean():
        w.op_commit()
    src = w.r.pick(others)
    rc, cnt, _ = w.sim.realgit("rev-list", "--count", f"{w.cur}..{src}")
    if int(cnt.strip() or 0) == 0:
        return None
    old = w.sim.realgit("rev-parse", src)[1].strip()
    rc, _, _ = w.realgit("merge", "--squash", src)
    if rc != 0:
        w._resolve_conflict()
    rc2, _, _ = w.realgit("commit", "-q", "-m", f"ci squash {src}")
    if rc2 != 0:
        w.realgit("reset", "-q", "--hard", "HEAD")
        w.trace.append(("ci_squash", src, "empty"))
        return None
    new = w.sim.head()
    rc3, _, _ = w.sim.gitai("squash-authorship", w.cur, new, old)
    w.trace.append(("ci_squash", src, rc3))
    return rc3


def resolve_prefer_delete(w):
    """scripted resolution of a stopped merge / rebase / cherry-pick: a modify/delete conflict is resolved by
    keeping the deletion; everything else as World does (keep both sides' lines)"""
    rc, out, _ = w.sim.realgit("status", "--porcelain", "-z")
    for e in out.split("\0"):
        if len(e) > 3 and e[:2] in ("DU", "UD", "DD"):
            w.realgit("rm", "-q", "-f", "--", e[3:])
    World._resolve_conflict(w)


def distinct_line(w, author, word):
    """a line that looks nothing like the generated `L<n> ...` lines (the tracker matches similar lines as edits)"""
    w.counter += 1
    t = f"{word} {w.counter * 7919} ~~~~ {word[::-1]} #### {w.counter * 104729}"
    w.author_of[t] = author
    return t


def append_distinct(w, path, n, word):
    """a person appends n distinct lines to path"""
    ls = w.lines(path) or []
    ls += [distinct_line(w, "H", word) for _ in range(n)]
    w.write(path, "".join(l + "\n" for l in ls))
    w.trace.append(("edit", "H", path, "append"))


def resolve_by_hand(w, mode):
    """a person resolves a stopped rebase / cherry-pick by typing the file: the upstream side's content, then
    none / some of the lines the commit being applied brought (never all of them: the result is shorter than the
    original), then possibly a line of their own.  `ours_checkout` = `git checkout --ours` (the commit no longer
    touches the file)."""
    rc, out, _ = w.sim.realgit("diff", "--name-only", "--diff-filter=U", "-z")
    for p in [x for x in out.split("\0") if x]:
        rc2, ours, _ = w.sim.realgit("show", f":2:{p}")
        rc3, theirs, _ = w.sim.realgit("show", f":3:{p}")
        if rc2 != 0 or rc3 != 0:
            w.realgit("rm", "-q", "-f", "--", p)         # modify/delete: keep the deletion
            continue
        if mode == "ours_checkout":
            w.realgit("checkout", "--ours", "--", p)
            w.realgit("add", "--", p)
            continue
        ol = ours.split("\n")[:-1] if ours.endswith("\n") else ours.split("\n")
        tl = theirs.split("\n")[:-1] if theirs.endswith("\n") else theirs.split("\n")
        brought = [l for l in tl if l not in ol]
        keep = [] if mode == "none" or len(brought) < 2 else brought[:w.r.range(1, max(1, len(brought) // 2))]
        own = [distinct_line(w, "H", "resolved by hand")] if mode == "none" or w.r.chance(1, 2) else []
        w.write(p, "".join(l + "\n" for l in ol + keep + own))
        w.realgit("add", "--", p)


def op_remove_upstream(w, victim, how):
    """the current branch deletes (or renames) a file the other branch's AI commits edit"""
    if how == "mv":
        w.git("mv", "--", victim, victim + ".moved")
    else:
        w.git("rm", "-q", "--", victim)
    w.trace.append((how, victim))
    w.op_commit(f"{how} {victim}")


def run_op(w, op):
    if op == "ci_squash":
        op_ci_squash(w)
    elif op == "edit":
        w.op_edit()
    elif op == "commit":
        w.op_commit()
    elif op == "commit_partial":
        w.op_commit_partial()
    elif op == "amend":
        w.op_amend()
    elif op == "branch":
        w.op_branch()
    elif op == "switch":
        w.op_switch()
    elif op == "rebase":
        w.op_rebase()
    elif op == "rebase_i":
        w.op_rebase(interactive=True)
    elif op == "cherry_pick":
        w.op_cherry_pick()
    elif op == "reset":
        w.op_reset()
    elif op == "stash":
        w.op_stash()
    elif op == "stash_pop":
        w.op_stash_pop()
    elif op == "merge_squash":
        w.op_merge_squash()


def classify(f, op, slow, ai_paths):
    """known class of one failure, from the step (operation, path taken) and the names of AI-edited files"""
    for p in ai_paths:
        c = c17_class(p)
        if c and f["kind"] in ("parse", "hash", "unreadable", "file_absent", "no_prompt", "dup_file", "base"):
            return c
    # K2 = the replay carries the state at the original head over for files the rewritten commit does not itself
    # change; a file in the commit's own diff is recomputed against the commit's content, so a stale entry for such a
    # file (e.g. the original note copied verbatim) is NOT a replay product and is not excused
    if op in REPLAY_OPS and slow and f["kind"] in REPLAY_KINDS and f.get("in_own_diff") is False:
        return "C05-K2 note written by the rebase / cherry-pick content replay: " + \
               ("names a file absent from the commit" if f["kind"] == "file_absent" else "lists lines beyond the end of the file")
    return None


def scenario(args):
    """one generated history; the notes ref is checked after EVERY operation; stops at the first failing step.
    Two shapes: `random` (any operation at any time) and `structured` (work on main, a feature branch with AI
    commits, upstream work that may touch the same files above the feature's lines, then a rewriting operation and a
    random tail) — the second makes rebases and cherry-picks that really replay content."""
    base, seed, idx, opts = args
    r = C.Rng(seed).fork(f"c05-{'n' if opts.get('nasty') else 'h'}-{idx}")
    sim = Sim5(base, f"{'n' if opts.get('nasty') else 'w'}{idx}")
    w = World(sim, r)
    out = {"idx": idx, "failures": [], "steps": 0, "notes_checked": 0, "nasty": bool(opts.get("nasty")),
           "slow_steps": 0, "fast_steps": 0}

    class Stop(Exception):
        pass

    def do(op, fn=None):
        sim.step_err = []
        if fn is not None:
            fn()
        else:
            run_op(w, op)
        out["steps"] += 1
        err = "\n".join(sim.step_err)
        slow = any(m in err for m in SLOW_MARKERS)
        out["slow_steps"] += 1 if slow else 0
        out["fast_steps"] += 1 if "Fast-path remapped" in err else 0
        fails = ck.step()
        if fails:
            ai_paths = sorted({t[2] for t in w.trace if t[0] == "edit" and t[1] != "H"})
            for f in fails:
                f.update({"k": out["steps"], "op": op, "slow_path": slow, "known": classify(f, op, slow, ai_paths)})
            out["failures"] = fails
            out["log"] = sim.log
            raise Stop()

    try:
        files = {}
        if opts.get("nasty"):
            names = r.shuffle(NASTY)[:r.range(2, 3)] + r.shuffle(NASTY_KNOWN)[:r.weighted([(5, 0), (5, 1)])]
        else:
            names = r.shuffle(["a.txt", "src/b.rs", "c d.py", "lib/x.c"])[:r.range(2, 3)]
        for n in names:
            files[n] = "".join(w.fresh("H") + "\n" for _ in range(r.range(3, 7)))
        sim.init(files)
        out["names"] = names
        ck = Checker(sim)
        ck.step()
        shape = r.weighted([(5, "structured"), (3, "random"), (4, "deleted"), (4, "conflict")])
        out["shape"] = shape
        try:
            if shape == "random":
                for _ in range(r.range(4, opts.get("max_ops", 10))):
                    do(r.weighted(OPS))
            elif shape == "structured":
                ai = lambda: r.pick(SESSIONS)
                for _ in range(r.range(0, 1)):
                    do("edit", lambda: w.op_edit(actor=r.pick(["H", "s1", "s2"])))
                    do("commit")
                do("branch")
                touched = []
                for _ in range(r.range(1, 3)):
                    for _ in range(r.range(1, 2)):
                        newf = r.chance(1, 5)
                        do("edit", lambda: touched.append(w.op_edit(actor=ai() if r.chance(4, 5) else "H",
                                                                    path=(f"new{w.counter}.txt" if newf else None))))
                    do(r.weighted([(6, "commit"), (1, "commit_partial"), (1, "amend")]))
                do("commit")
                do("switch")
                for _ in range(r.range(0, 2)):
                    same = touched and r.chance(2, 3)
                    do("edit", lambda: w.op_edit(actor=r.pick(["H", "H", "s2"]), path=(r.pick(touched) if same else None),
                                                 region=r.pick(["top", "top", None, "bottom"]), kinds=["ins", "rep", "del"]))
                    do("commit")
                final = r.weighted([(5, "rebase"), (4, "rebase_i"), (3, "cherry_pick"), (2, "merge_squash"), (2, "ci_squash"), (1, "amend")])
                if final in ("rebase", "rebase_i"):
                    do("switch")
                do(final)
                for _ in range(r.range(0, 3)):
                    do(r.weighted(OPS))
            if shape == "conflict":
                # both sides append to the same file; the stopped rebase / cherry-pick is resolved BY HAND, keeping none
                # or some of the agent's lines, so that line numbers of the original note would overflow
                mode = r.weighted([(5, "none"), (4, "some"), (2, "ours_checkout")])
                out["resolution"] = mode
                w._resolve_conflict = lambda: resolve_by_hand(w, mode)
                victim = r.pick(names)
                ai = r.pick(SESSIONS)
                do("branch")
                for _ in range(r.range(2, 4)):
                    do("edit", lambda: w.op_edit(actor=ai, path=victim, region="bottom", kinds=["ins"]))
                if r.chance(1, 2):
                    others = [n for n in names if n != victim]
                    if others:
                        do("edit", lambda: w.op_edit(actor="H", path=r.pick(others), kinds=["ins"]))
                do("commit")
                if r.chance(1, 3):
                    do("edit", lambda: w.op_edit(actor=r.pick(SESSIONS), path=victim, region="bottom", kinds=["ins"]))
                    do("commit")
                do("switch")
                if r.chance(2, 3):
                    do("edit", lambda: append_distinct(w, victim, r.range(1, 2), "upstream tail"))
                else:
                    do("edit", lambda: w.op_edit(actor=r.pick(["H", "s2"]), path=victim, region="bottom", kinds=["ins"]))
                do("commit")
                final = r.weighted([(6, "rebase"), (4, "cherry_pick")])
                if final == "rebase":
                    do("switch")
                do(final)
                for _ in range(r.range(0, 2)):
                    do(r.weighted(OPS))
            if shape == "deleted":
                # a file the feature's AI commits edit is deleted / renamed upstream; conflicts are resolved by deletion
                w._resolve_conflict = lambda: resolve_prefer_delete(w)
                victim = r.pick(names)
                ai = lambda: r.pick(SESSIONS)
                do("branch")
                do("edit", lambda: w.op_edit(actor=ai(), path=victim, kinds=["ins", "rep"]))
                if r.chance(1, 2):
                    others = [n for n in names if n != victim]
                    do("edit", lambda: w.op_edit(actor=ai(), path=(r.pick(others) if others and r.chance(2, 3) else f"new{w.counter}.txt")))
                do("commit")
                if r.chance(1, 3):
                    do("edit", lambda: w.op_edit(actor=ai(), path=f"new{w.counter}.txt"))
                    do("commit")
                do("switch")
                how = r.weighted([(3, "rm"), (1, "mv")])
                do(how, lambda: op_remove_upstream(w, victim, how))
                final = r.weighted([(6, "ci_squash"), (3, "rebase"), (2, "cherry_pick"), (2, "merge_squash")])
                if final == "rebase":
                    do("switch")
                do(final)
                for _ in range(r.range(0, 2)):
                    do(r.weighted(OPS))
        except Stop:
            pass
        out["trace"] = w.trace
        out["notes_checked"] = ck.n_checked
        return out
    finally:
        shutil.rmtree(sim.base, ignore_errors=True)


# ====================================================================== (b) fan-out matrix on the real binary
def _ai(sim, s, p, text):
    sim.checkpoint_human([p])
    sim.write(p, text)
    sim.checkpoint_ai(s, [p], tool=TOOL)


def build_tree(sim, ents, cwd=None):
    """ents: [(components, blob_oid)] -> tree oid (mktree, nested)"""
    blobs = [(c[0], oid) for c, oid in ents if len(c) == 1]
    groups = {}
    for c, oid in ents:
        if len(c) > 1:
            groups.setdefault(c[0], []).append((c[1:], oid))
    s = "".join(f"100644 blob {oid}\t{k}\n" for k, oid in blobs)
    for g, sub in groups.items():
        s += f"040000 tree {build_tree(sim, sub, cwd)}\t{g}\n"
    rc, out, err = sim.realgit("mktree", stdin=s.encode(), cwd=cwd)
    if rc != 0:
        raise RuntimeError("mktree: " + err)
    return out.strip()


def set_notes_tree(sim, ents, cwd=None):
    t = build_tree(sim, ents, cwd)
    rc, out, err = sim.realgit("commit-tree", t, "-m", "layout", stdin=b"", cwd=cwd)
    if rc != 0:
        raise RuntimeError("commit-tree: " + err)
    sim.realgit("update-ref", "refs/notes/ai", out.strip(), cwd=cwd)


def comps(key, d):
    d = min(d, max(0, (len(key) - 1) // 2))
    return [key[2 * i:2 * i + 2] for i in range(d)] + [key[2 * d:]]


def relayout(sim, depth_of):
    ents = [(comps(p.replace("/", ""), depth_of(p.replace("/", ""))), blob) for blob, p in ls_notes(sim)]
    set_notes_tree(sim, ents)


def notes_state(sim, commits):
    """oracle on the notes ref: (dup keys, per-commit problems)"""
    ents = ls_notes(sim)
    keys = {}
    for blob, p in ents:
        keys.setdefault(p.replace("/", ""), []).append(p)
    dups = {k: v for k, v in keys.items() if len(v) > 1}
    probs = {}
    for c in commits:
        raw = sim.note_raw(c)
        if raw is None:
            probs[c] = ["no note"]
            continue
        n = parse_v3(raw)
        pr = [d for _, d in n["problems"]]
        if not pr:
            ck = Checker(sim)
            pr = [d for _, d in structural_problems(n, c, ck.files_lc(c))]
        if pr:
            probs[c] = pr
    return dups, probs


def _seq_editor(base, body):
    ed = os.path.join(base, "ed.py")
    with open(ed, "w") as f:
        f.write("import sys\np = sys.argv[1]\nlines = open(p).read().split('\\n')\n"
                "picks = [l for l in lines if l.startswith('pick ')]\nrest = [l for l in lines if not l.startswith('pick ')]\n"
                + body + "\nopen(p, 'w').write('\\n'.join(picks + rest) + '\\n')\n")
    return f"python3 {ed}"


def fan_case(args):
    """one cell of the matrix: real notes re-laid out at `depth`, then a note-writing operation"""
    base, idx, depth, op = args
    sim = Sim5(base, f"fan{idx}")
    res = {"depth": depth, "op": op, "fail": [], "layout_before": None}
    try:
        sim.init({"a.txt": "h1\nh2\nh3\n", "m.txt": "m\n"})
        sim.git("switch", "-c", "feat")
        shas, txt = [], "h1\nh2\nh3\n"
        for i in range(3):
            txt += f"AI{i}a\nAI{i}b\n"
            _ai(sim, "s1", "a.txt", txt)
            sim.realgit("add", "-A")
            sim.git("commit", "-q", "-m", f"f{i}")
            shas.append(sim.head())
        b, c_, d = shas
        ai_lines = {4, 5, 6, 7, 8, 9}
        if op == "rebase_drop":
            # mixed tree: the two commits that stay sit at `depth`, the dropped one at depth 1 (found by the lookup)
            relayout(sim, lambda k: depth if k in (b, c_) else 1)
            ed = _seq_editor(sim.base, "picks = picks[:-1]")
            sim.git("rebase", "-i", "main", env_extra={"GIT_SEQUENCE_EDITOR": ed, "GIT_EDITOR": "true"})
            commits, want = [b, c_], {4, 5, 6, 7}
        elif op == "rebase_plain":
            sim.git("switch", "main")
            sim.write("m.txt", "m\nm2\n")
            sim.realgit("add", "-A")
            sim.git("commit", "-q", "-m", "m2")      # (git's own `notes add` re-lays the whole tree out: do it first)
            sim.git("switch", "feat")
            relayout(sim, lambda k: depth)
            sim.git("rebase", "main")
            rc, out, _ = sim.realgit("rev-list", "--reverse", "main..HEAD")
            commits, want = out.split(), ai_lines
        elif op == "cherry_pick":
            relayout(sim, lambda k: depth)
            sim.git("switch", "main")
            sim.git("cherry-pick", b)
            commits, want = [sim.head()], {4, 5}
        elif op == "amend":
            relayout(sim, lambda k: depth)
            sim.git("commit", "-q", "--amend", "-m", "reworded")
            commits, want = [sim.head()], ai_lines
        else:  # commit
            relayout(sim, lambda k: depth)
            _ai(sim, "s2", "a.txt", txt + "AI9\n")
            sim.realgit("add", "-A")
            sim.git("commit", "-q", "-m", "f3")
            commits, want = [sim.head()], ai_lines | {10}
        res["layout_after"] = sorted(p for _, p in ls_notes(sim))[:8]
        dups, probs = notes_state(sim, commits)
        for k, v in dups.items():
            res["fail"].append(f"two tree entries for {k[:10]}: {v}")
        for c, pr in probs.items():
            res["fail"].append(f"note of {c[:10]}: {pr[:2]}")
        bl = sim.blame("a.txt") or {}
        if set(bl) != want:
            res["fail"].append(f"blame at HEAD gives AI lines {sorted(bl)} instead of {sorted(want)}")
        return res
    except Exception as e:  # engine trouble is a failure of the case, not of the run
        res["fail"].append("engine: " + repr(e)[:200])
        return res
    finally:
        shutil.rmtree(sim.base, ignore_errors=True)


def natural_case(args):
    """a notes ref with 70 000 notes: git itself stores notes two levels deep; then an ordinary AI commit and a rebase"""
    base, n = args
    sim = Sim5(base, "big")
    res = {"n": n, "fail": [], "depth_seen": None}
    try:
        sim.init({"a.txt": "h1\nh2\n", "m.txt": "m\n"})
        lines = ["blob\nmark :1\ndata 2\nx\n\n"]
        for i in range(n):
            lines.append("commit refs/heads/filler\nmark :%d\ncommitter a <a@b> %d +0000\ndata 1\nc\n" % (i + 2, 1767225600 + i))
            if i:
                lines.append("from :%d\n" % (i + 1))
            lines.append("\n")
        rc, tip, _ = sim.realgit("rev-parse", "refs/notes/ai")
        lines.append("commit refs/notes/ai\ncommitter a <a@b> 1767225600 +0000\ndata 0\nfrom %s\n" % tip.strip())
        for i in range(n):
            lines.append("N :1 :%d\n" % (i + 2))
        lines.append("\n")
        rc, _, err = sim.realgit("fast-import", "--quiet", stdin="".join(lines).encode())
        if rc != 0:
            raise RuntimeError("fast-import " + err[-200:])
        sim.git("switch", "-c", "feat")
        _ai(sim, "s1", "a.txt", "h1\nAI1\nAI2\nh2\n")
        sim.realgit("add", "-A")
        sim.git("commit", "-q", "-m", "f")
        f = sim.head()
        rc, out, _ = sim.realgit("ls-tree", "-r", "--name-only", "refs/notes/ai", f[:2] + "/")
        path = [p for p in out.split("\n") if p.replace("/", "") == f]
        res["depth_seen"] = path[0].count("/") if path else None
        before = sim.blame("a.txt") or {}
        sim.git("switch", "main")
        sim.write("m.txt", "m\nm2\n")
        sim.realgit("add", "-A")
        sim.git("commit", "-q", "-m", "m2")
        sim.git("switch", "feat")
        sim.git("rebase", "main")
        h = sim.head()
        after = sim.blame("a.txt") or {}
        if set(before) != {2, 3}:
            res["fail"].append(f"blame before the rebase: {sorted(before)}")
        if sim.note_raw(h) is None:
            res["fail"].append("the rebased commit has no note (the lookup missed the note of the original commit)")
        if set(after) != {2, 3}:
            res["fail"].append(f"blame after the rebase gives AI lines {sorted(after)} instead of [2, 3]")
        return res
    except Exception as e:
        res["fail"].append("engine: " + repr(e)[:200])
        return res
    finally:
        shutil.rmtree(sim.base, ignore_errors=True)


def remap_witness(base):
    """repaired C05-K3, must PASS: a file whose name contains the field literal, fast-path rebase; True = broken"""
    sim = Sim5(base, "k3")
    try:
        name = '"base_commit_sha":"x'
        sim.init({"m.txt": "m\n"})
        sim.git("switch", "-c", "feat")
        _ai(sim, "s1", name, "AI1\nAI2\n")
        sim.realgit("add", "-A")
        sim.git("commit", "-q", "-m", "f")
        ok_before = not parse_v3(sim.note_raw(sim.head()) or "")["problems"]
        sim.git("switch", "main")
        sim.write("m.txt", "m\nm2\n")
        sim.realgit("add", "-A")
        sim.git("commit", "-q", "-m", "m2")
        sim.git("switch", "feat")
        sim.step_err = []
        sim.git("rebase", "main")
        fast = "Fast-path remapped" in "\n".join(sim.step_err)
        raw = sim.note_raw(sim.head())
        bad = raw is None or bool(parse_v3(raw)["problems"])
        return ok_before and fast and bad
    finally:
        shutil.rmtree(sim.base, ignore_errors=True)


def replay_witness(base):
    """C05-K2 on the real binary: the second feature commit creates b.txt and appends to c.txt; upstream touches
    a.txt; the note of the FIRST rebased commit is compared with that commit"""
    sim = Sim5(base, "k2")
    try:
        sim.init({"a.txt": "a1\na2\n", "c.txt": "c1\nc2\n", "m.txt": "m\n"})
        sim.git("switch", "-c", "feat")
        _ai(sim, "s1", "a.txt", "a1\na2\nAI1\n")
        sim.realgit("add", "-A")
        sim.git("commit", "-q", "-m", "f1")
        _ai(sim, "s1", "b.txt", "B1\nB2\n")
        _ai(sim, "s1", "c.txt", "c1\nc2\nC3\nC4\n")
        sim.realgit("add", "-A")
        sim.git("commit", "-q", "-m", "f2")
        sim.git("switch", "main")
        sim.write("a.txt", "top\na1\na2\n")
        sim.realgit("add", "-A")
        sim.git("commit", "-q", "-m", "m2")
        sim.git("switch", "feat")
        sim.git("rebase", "main")
        rc, out, _ = sim.realgit("rev-list", "--reverse", "main..HEAD")
        first = out.split()[0]
        n = parse_v3(sim.note_raw(first) or "")
        ck = Checker(sim)
        pr = structural_problems(n, first, ck.files_lc(first))
        return sorted({k for k, _ in pr})
    finally:
        shutil.rmtree(sim.base, ignore_errors=True)


def conflict_by_hand_witness(base, how):
    """must PASS (how = hand) / is K2 (how = ours): feature: AI appends 8 lines to f.txt and a person edits g.txt; main appends
    one line to f.txt; git rebase main stops; the conflict is resolved by typing f.txt without any agent line
    (hand) or by `git checkout --ours f.txt` (ours); git rebase --continue.  -> (problem kinds, f.txt in the commit's own diff)"""
    sim = Sim5(base, "hand" + how)
    try:
        sim.init({"f.txt": "base 1\nbase 2\n", "g.txt": "notes\n"})
        sim.git("switch", "-c", "feature")
        sim.checkpoint_human(["f.txt"])
        sim.write("f.txt", "base 1\nbase 2\n" + "".join(f"ai {i}\n" for i in range(1, 9)))
        sim.checkpoint_ai("s1", ["f.txt"], tool=TOOL)
        sim.write("g.txt", "notes\nhuman note\n")
        sim.realgit("add", "-A")
        sim.git("commit", "-q", "-m", "feature work")
        sim.git("switch", "main")
        sim.write("f.txt", "base 1\nbase 2\nmain tail\n")
        sim.realgit("add", "-A")
        sim.git("commit", "-q", "-m", "main work")
        sim.git("switch", "feature")
        sim.git("rebase", "main")
        if how == "hand":
            sim.write("f.txt", "base 1\nbase 2\nmain tail\nresolved by hand\n")
        else:
            sim.realgit("checkout", "--ours", "--", "f.txt")
        sim.realgit("add", "f.txt")
        sim.git("rebase", "--continue", env_extra={"GIT_EDITOR": "true"})
        h = sim.head()
        raw = sim.note_raw(h)
        if raw is None:
            return [], None
        n = parse_v3(raw)
        ck = Checker(sim)
        pr = [k for k, _ in n["problems"]] + [k for k, _ in structural_problems(n, h, ck.files_lc(h))]
        return sorted(set(pr)), "f.txt" in ck.own_diff(h)
    finally:
        shutil.rmtree(sim.base, ignore_errors=True)


def squash_deleted_witness(base):
    """must PASS on the unchanged tree: the target branch deleted x.txt, the source branch's AI commit edits a.txt and
    x.txt, squash by plain git with the modify/delete conflict resolved by deletion, then `git-ai squash-authorship`.
    -> problems of the squash commit's note (empty = ok)"""
    sim = Sim5(base, "sqdel")
    try:
        sim.init({"a.txt": "l1\nl2\nl3\n", "x.txt": "x1\nx2\n"})
        sim.git("switch", "-c", "feat")
        sim.checkpoint_human(["a.txt", "x.txt"])
        sim.write("a.txt", "l1\nl2\nl3\nai1\n")
        sim.write("x.txt", "x1\nx2\nxai1\nxai2\n")
        sim.checkpoint_ai("s1", ["a.txt", "x.txt"], tool=TOOL)
        sim.realgit("add", "-A")
        sim.git("commit", "-q", "-m", "F1")
        f1 = sim.head()
        sim.git("switch", "main")
        sim.git("rm", "-q", "x.txt")
        sim.git("commit", "-q", "-m", "M1")
        sim.realgit("merge", "--squash", "feat")
        sim.realgit("rm", "-q", "-f", "x.txt")
        sim.realgit("commit", "-q", "-m", "squash feat")
        s_ = sim.head()
        sim.gitai("squash-authorship", "main", s_, f1)
        raw = sim.note_raw(s_)
        if raw is None:
            return ["no note written for the squash commit"]
        n = parse_v3(raw)
        ck = Checker(sim)
        pr = [d for _, d in n["problems"]] + [d for _, d in structural_problems(n, s_, ck.files_lc(s_))]
        if "a.txt" not in [p for p, _ in n["files"]]:
            pr.append("the AI line of a.txt is not attested")
        return pr
    finally:
        shutil.rmtree(sim.base, ignore_errors=True)


def replay_delete_witness(base):
    """C05-K2, second history: one feature commit (AI edits a.txt and x.txt), upstream deletes x.txt; the rebase stops
    with a modify/delete conflict which is resolved by deletion; -> problem kinds of the rebased commit's note"""
    sim = Sim5(base, "k2b")
    try:
        sim.init({"a.txt": "l1\nl2\nl3\n", "x.txt": "x1\nx2\n"})
        sim.git("switch", "-c", "feat")
        sim.checkpoint_human(["a.txt", "x.txt"])
        sim.write("a.txt", "l1\nl2\nl3\nai1\n")
        sim.write("x.txt", "x1\nx2\nxai1\nxai2\n")
        sim.checkpoint_ai("s1", ["a.txt", "x.txt"], tool=TOOL)
        sim.realgit("add", "-A")
        sim.git("commit", "-q", "-m", "F1")
        sim.git("switch", "main")
        sim.git("rm", "-q", "x.txt")
        sim.git("commit", "-q", "-m", "M1")
        sim.git("switch", "feat")
        sim.git("rebase", "main")
        sim.realgit("rm", "-q", "-f", "x.txt")
        sim.git("rebase", "--continue", env_extra={"GIT_EDITOR": "true"})
        h = sim.head()
        raw = sim.note_raw(h)
        if raw is None:
            return ["no_note"]
        n = parse_v3(raw)
        ck = Checker(sim)
        return sorted({k for k, _ in structural_problems(n, h, ck.files_lc(h))})
    finally:
        shutil.rmtree(sim.base, ignore_errors=True)


# ====================================================================== (C) tree correspondence on real repositories
def gen_tree_case(r):
    nkeys = r.range(1, 6)
    keys = []
    for _ in range(nkeys):
        if keys and r.chance(1, 4):      # same fan-out directory as an earlier key
            k = r.pick(keys)[:2] + "".join(r.pick(HEX) for _ in range(38))
        else:
            k = "".join(r.pick(HEX) for _ in range(40))
        keys.append(k)
    deep = r.chance(1, 3)
    tree, bid = [], 1
    for k in keys:
        if r.chance(1, 6):
            continue
        d = r.weighted([(4, 0), (5, 1), (3, 2), (1, 3)]) if deep else r.weighted([(4, 0), (6, 1)])
        tree.append((comps(k, d), bid))
        bid += 1
        if deep and r.chance(1, 8):      # an object annotated twice (what a deeper tree can end up with)
            d2 = r.pick([x for x in (0, 1, 2) if x != d])
            tree.append((comps(k, d2), bid))
            bid += 1
    es = []
    for _ in range(r.range(1, 4)):
        k = r.pick(keys) if r.chance(3, 4) else "".join(r.pick(HEX) for _ in range(40))
        es.append((k, bid))
        bid += 1
    if r.chance(1, 5) and es:
        es.append((es[0][0], bid))
        bid += 1
    if r.chance(1, 12):
        es.append((r.pick(["ab", "abc", keys[0][:2]]), bid))
        bid += 1
    qs = sorted(set(keys + [e[0] for e in es]))
    return tree, es, qs


def tree_sx(tree):
    return C.sx([[[C.cps(c) for c in p], b] for p, b in tree])


def tree_cases(args):
    """worker: a list of cases on one scratch repository"""
    base, wid, cases = args
    sim = Sim(base, f"tree{wid}")
    sim.init({"x": "x\n"})
    out = []
    try:
        for cid, tree, es, qs in cases:
            oid_of, id_of = {}, {}
            for _, b in list(tree) + [(None, b) for _, b in es]:
                rc, o, _ = sim.realgit("hash-object", "-w", "--stdin", stdin=f"b{b}".encode())
                oid_of[b], id_of[o.strip()] = o.strip(), b
            sim.realgit("update-ref", "-d", "refs/notes/ai")
            if tree:
                set_notes_tree(sim, [(p, oid_of[b]) for p, b in tree])
            hexq = [q for q in qs if len(q) == 40]
            repo_sx = C.sx(C.cps(sim.repo))

            def lk():
                o = C.run_cases(C.VHARNESS, "c05-lookup", [("l", repo_sx + " " + C.sx([C.cps(q) for q in qs]))], shards=1).get("l", "")
                d = {}
                if o.startswith("("):
                    for a, b in C.sx_parse_many(o)[0]:
                        d[C.uncps(a)] = id_of.get(C.uncps(b), "?")
                return [d.get(q, "none") for q in qs]

            def gl():
                got = {}
                for blob, obj in sim.notes_list():
                    got[obj] = blob
                res = []
                for q in qs:
                    if q not in hexq or q not in got:
                        res.append([])
                        continue
                    # git prints the concatenation of all blobs that annotate q: recover which
                    rc, txt, _ = sim.realgit("notes", "--ref=ai", "show", q)
                    res.append(sorted(int(x) for x in re.findall(r"b(\d+)", txt)))
                return res
            before = (lk(), gl())
            w = C.run_cases(C.VHARNESS, "c05-batch-write",
                            [("w", repo_sx + " " + C.sx([[C.cps(k), C.cps(f"b{b}")] for k, b in es]))], shards=1).get("w")
            after_tree = sorted(([c for c in p.split("/")], id_of.get(blob, "?")) for blob, p in ls_notes(sim))
            after = (lk(), gl())
            out.append({"id": cid, "write": w, "tree": after_tree, "before": before, "after": after})
        return out
    finally:
        shutil.rmtree(sim.base, ignore_errors=True)


# ====================================================================== in-process generators
def gen_oid(r):
    k = r.weighted([(40, "hex40"), (10, "hex64"), (10, "short"), (10, "text"), (15, "uni"), (5, "slash")])
    if k == "hex40":
        return k, "".join(r.pick(HEX) for _ in range(40))
    if k == "hex64":
        return k, "".join(r.pick(HEX) for _ in range(64))
    if k == "short":
        return k, "".join(r.pick(HEX) for _ in range(r.range(0, 3)))
    if k == "text":
        return k, "".join(r.pick("abz09-_. ") for _ in range(r.range(0, 8)))
    if k == "slash":
        return k, r.pick(["a/b", "ab/cd", "/", "abc/"])
    return k, "".join(r.pick(["a", "é", "日", "\U0001F600", "b", "ß"]) for _ in range(r.range(1, 5)))


def gen_bc_line(r):
    oid = "".join(r.pick(HEX + "ABCDEFg") for _ in range(r.pick([40, 40, 40, 64, 39, 41, 0, 7])))
    ty = r.pick(["blob", "blob", "blob", "tree", "commit", "missing", "Blob", ""])
    sep = r.pick([" ", " ", "  ", "\t", "\u00a0", "\u2003", ""])
    tail = r.pick([" 123", "", " 0", sep + "x y"])
    lead = r.pick(["", "", " ", "\t"])
    k = r.weighted([(8, "std"), (2, "missing"), (1, "uni")])
    if k == "missing":
        return f"refs/notes/ai:{oid} missing"
    if k == "uni":
        return "é" * 20 + " blob 3"
    return lead + oid + sep + ty + tail


def gen_las(r, malformed=False):
    n = r.weighted([(5, 0), (20, 1), (25, 2), (25, 4), (15, 7), (10, 12)])
    authors = [session_hash(TOOL, "s1"), session_hash(TOOL, "s2"), HUMAN, "x y", "é"]
    las = []
    big = r.chance(1, 10)
    for _ in range(n):
        hi = 4294967295 if big else r.pick([6, 12, 40])
        a = r.range(1, hi) if not big else r.pick([4294967295, 4294967294, 4294967290, r.range(1, hi)])
        ln = r.weighted([(5, 0), (3, 1), (2, r.range(2, 6))])
        b = min(a + ln, 4294967295)
        if malformed and r.chance(1, 4):
            a, b = r.pick([(min(b + 1, 4294967295), a), (0, b), (0, 0)])
        au = r.weighted([(5, authors[0]), (3, authors[1]), (3, authors[2]), (1, authors[3]), (1, authors[4])])
        las.append([a, b, C.cps(au)])
        if r.chance(1, 8):
            las.append([a, b, C.cps(au)])
    return las


def att_oracle(las, out):
    """independent check of an emitted attestation against the input intervals (valid inputs only)"""
    by = {}
    for a, b, au in las:
        by.setdefault(C.uncps(au), []).append((a, b))
    by.pop(HUMAN, None)
    if out == "none":
        return None if not by else "no attestation although AI intervals exist"
    f = C.sx_parse_many(out)[0]
    seen = {}
    for e in f[1:]:
        h = C.uncps(e[0])
        if h == HUMAN:
            return "human author emitted"
        if h in seen:
            return f"author {h} twice"
        ivs = []
        for rg in e[1:]:
            if rg[0] == "s":
                ivs.append((rg[1], rg[1]))
            else:
                if rg[1] >= rg[2]:
                    return f"Range({rg[1]},{rg[2]}) should be Single or is inverted"
                ivs.append((rg[1], rg[2]))
        if not ivs:
            return "entry without ranges"
        for (a1, b1), (a2, b2) in zip(ivs, ivs[1:]):
            if not a2 > b1 + 1:
                return f"ranges {a1}-{b1},{a2}-{b2} not sorted / overlapping / adjacent"
        seen[h] = ivs
    if set(seen) != set(by):
        return f"authors {sorted(seen)} != {sorted(by)}"
    for h, ivs in seen.items():
        pts = set()
        for a, b in ivs + by[h]:
            pts.update([a, b, a - 1, b + 1])
        for p in pts:
            i_in = any(a <= p <= b for a, b in by[h])
            o_in = any(a <= p <= b for a, b in ivs)
            if i_in != o_in:
                return f"line {p} of {h}: in input {i_in}, in output {o_in}"
    return None


def gen_merge_case(r):
    """two attribution sets with their contents and a final state; files may be missing from any of the three"""
    pool = ["a.txt", "x.txt", "d/e.rs", "s p.py"]
    authors = [session_hash(TOOL, "s1"), session_hash(TOOL, "s2"), HUMAN]

    def content():
        return "".join(f"l{r.below(40)}\n" for _ in range(r.range(0, 5)))

    def va():
        fs = []
        for p in r.shuffle(pool)[:r.range(0, 3)]:
            c, attrs, pos = content(), [], 0
            for ln in c.split("\n")[:-1]:
                if r.chance(2, 3):
                    attrs.append([pos, pos + len(ln) + 1, C.cps(r.pick(authors)), r.range(1, 5)])
                pos += len(ln) + 1
            fs.append([p, c, attrs])
        return fs
    primary, secondary = va(), va()
    known = {p: c for p, c, _ in secondary}
    known.update({p: c for p, c, _ in primary})
    final = []
    for p in pool:
        k = r.weighted([(4, "absent"), (3, "same"), (3, "edited"), (1, "fresh")])
        if k == "absent":
            continue
        if k == "same" and p in known:
            final.append([p, known[p]])
        elif k == "edited" and p in known:
            ls = known[p].split("\n")[:-1]
            ls.insert(r.range(0, len(ls)), f"n{r.below(40)}")
            if len(ls) > 1 and r.chance(1, 2):
                del ls[r.below(len(ls))]
            final.append([p, "".join(x + "\n" for x in ls)])
        else:
            final.append([p, content()])
    return primary, secondary, final


PATH_POOL = ["src/a.rs", "b.txt", "my file.rs", 'q"x', FIELD, FIELD + ':"x', FIELD + ' : "y z', "x" + FIELD + ":1",
             "héllo.rs", "base_commit_sha", '"base_commit_sha', FIELD + ":"]


def gen_note(r):
    """-> (kind, text, expect_ok)"""
    k = r.weighted([(60, "valid"), (15, "compact"), (25, "mal")])
    paths = [r.pick(PATH_POOL) for _ in range(r.weighted([(2, 0), (5, 1), (3, 2)]))]
    att = ""
    h = session_hash(TOOL, "s1")
    for p in paths:
        att += (f'"{p}"' if (" " in p or "\t" in p) else p) + "\n" + f"  {h} 1-{r.range(2, 9)}\n"
    base = r.pick(["", "0" * 40, "abc123", "".join(r.pick(HEX) for _ in range(40))])
    txt = r.pick(["do it", 'say "base_commit_sha": "zzz" now', "back\\slash", 'q"', "multi\nline", '"base_commit_sha":"'])
    md = {"schema_version": "authorship/3.0.0", "git_ai_version": "1.1.8", "base_commit_sha": base,
          "prompts": {h: {"agent_id": {"tool": TOOL, "id": "s1", "model": "m"}, "human_author": None,
                          "messages": [{"type": "user", "text": txt}], "total_additions": 1, "total_deletions": 0,
                          "accepted_lines": 1, "overriden_lines": 0}}}
    if not paths:
        md["prompts"] = {} if r.chance(1, 2) else md["prompts"]
    if k == "valid":
        return k, att + "---\n" + json.dumps(md, indent=2), True
    if k == "compact":
        sep = r.pick([(",", ":"), (", ", " : "), (",\n", ":\n\t"), (",", ":\r\n ")])
        return k, att + "---\n" + json.dumps(md, separators=sep), True
    m = r.below(7)
    if m == 0:
        del md["base_commit_sha"]
        return k, att + "---\n" + json.dumps(md, indent=2), False
    if m == 1:
        md["base_commit_sha"] = 'es"c\\aped'
        return k, att + "---\n" + json.dumps(md, indent=2), False
    if m == 2:
        s = att + "---\n" + json.dumps(md, indent=2)
        return k, s[:r.range(0, len(s))], False
    if m == 3:
        return k, FIELD + r.pick(["", ":", ': "', ': "abc', ': "a\\', ' \n\t: \r"v" tail', ":x", ': "\\"']), False
    if m == 4:
        return k, "é" + FIELD + ': "é\\é" é', False
    if m == 5:
        return k, att + json.dumps(md), False
    return k, "", False


def remap_oracle(note, target, full):
    """the full remap must change the base field and nothing else (independent parser on both texts)"""
    a, b = parse_v3(note), parse_v3(full)
    if a["problems"]:
        return None
    if b["problems"]:
        return "result does not parse: " + str(b["problems"][:1])
    if b["base"] != target:
        return f"base is {b['base']!r}"
    if a["files"] != b["files"]:
        return "attestation section changed"
    if a["prompts"] != b["prompts"]:
        return "prompts changed"
    return None


def note_known_remap(note):
    """input-defined class: the field literal occurs before the metadata section"""
    i = note.find("\n---\n")
    head = note[:i] if i >= 0 else (note if not note.startswith("---\n") else "")
    return FIELD in head


# ====================================================================== run
def run(ctx):
    r = ctx.rng
    quick = ctx.tier == "quick"
    obligations, violations, known_seen = [], [], set()
    mism = []
    cov = {}
    distinct = set()
    evaluations = 0
    model = ctx.model_ok

    def both(mode, cases):
        impl = C.run_cases(C.VHARNESS, mode, cases)
        mod = C.run_cases(C.driver_path("notes"), mode, cases) if model else {}
        return impl, mod

    # ---------------------------------------------------------------- notes_path_for_object
    n1 = 800 if quick else 20000
    cases, kinds = [], {}
    for i in range(n1):
        k, oid = gen_oid(r.fork(f"oid{i}"))
        kinds[k] = kinds.get(k, 0) + 1
        cases.append((f"p{i}", oid))
    cases += [("pc0", ""), ("pc1", "ab"), ("pc2", "abc"), ("pc3", "aé"), ("pc4", "aéb"), ("pc5", "é"), ("pc6", "日本")]
    sx_cases = [(i, C.sx(list(o.encode()))) for i, o in cases]
    impl, mod = both("c05-path", sx_cases)
    for i, o in cases:
        a = impl.get(i)
        evaluations += 1
        if len(o.encode()) > 2:
            distinct.add(("path", o))
        # oracle: the path written is aa/rest (or the name itself when it has at most two bytes)
        bs = o.encode()
        if a is not None and a != "panic":
            got = bytes(C.sx_parse_many(a)[0][1])
            want = bs if len(bs) <= 2 else bs[:2] + b"/" + bs[2:]
            if got != want:
                violations.append((f"notes_path_for_object({o!r}) = {got!r}", {"kind": "path", "oid": o, "impl": a}))
        if model and a != mod.get(i):
            mism.append(f"notes_path_for_object({o!r}): impl {a} model {mod.get(i)}")
    cov["oid_kinds"] = kinds

    # ---------------------------------------------------------------- parse_batch_check_blob_oid
    n2 = 600 if quick else 20000
    cases = [(f"b{i}", gen_bc_line(r.fork(f"bc{i}"))) for i in range(n2)]
    cases += [("bc0", "a" * 40 + " blob 12"), ("bc1", "A" * 64 + " blob"), ("bc2", "a" * 40 + " tree 3"), ("bc3", ""),
              ("bc4", "refs/notes/ai:" + "a" * 40 + " missing")]
    impl, mod = both("c05-batchcheck", [(i, C.sx(C.cps(l))) for i, l in cases])
    for i, l in cases:
        evaluations += 1
        a = impl.get(i)
        parts = l.split()
        want = len(parts) >= 2 and parts[1] == "blob" and len(parts[0]) in (40, 64) and all(ch in "0123456789abcdefABCDEF" for ch in parts[0])
        if (a != "none") != want:
            violations.append((f"parse_batch_check_blob_oid({l!r}) = {a}", {"kind": "batchcheck", "line": l, "impl": a}))
        if a != "none":
            distinct.add(("bc", l))
        if model and a != mod.get(i):
            mism.append(f"parse_batch_check_blob_oid({l!r}): impl {a} model {mod.get(i)}")

    # ---------------------------------------------------------------- attestation builders
    n3 = 1500 if quick else 40000
    cases, raw_cases = [], {}
    for i in range(n3):
        rr = r.fork(f"att{i}")
        mal = rr.chance(1, 6)
        las = gen_las(rr, malformed=mal)
        p = rr.pick(["f.rs", "my file", "é", "---"])
        cases.append((f"a{i}", C.sx(C.cps(p)) + " " + C.sx(las)))
        raw_cases[f"a{i}"] = (las, mal)
    corpus = [[5, 7, "a"], [1, 2, "a"], [3, 3, "a"], [10, 10, "b"], [1, 1, HUMAN], [6, 9, "a"], [20, 20, "a"], [5, 7, "a"]]
    cases.append(("acorpus", C.sx(C.cps("f")) + " " + C.sx([[a, b, C.cps(h)] for a, b, h in corpus])))
    raw_cases["acorpus"] = ([[a, b, C.cps(h)] for a, b, h in corpus], False)
    impl, mod = both("c05-att", cases)
    n_mal = 0
    for i, _ in cases:
        evaluations += 1
        a = impl.get(i)
        las, mal = raw_cases[i]
        if a is None or a == "panic":
            violations.append((f"attestation builder panicked on {C.sx(las)[:200]}", {"kind": "att", "las": las, "impl": a}))
            continue
        if len(las) >= 2:
            distinct.add(("att", C.sx(las)))
        if mal:
            n_mal += 1
        else:
            why = att_oracle(las, a)
            if why:
                violations.append((f"attestation builder: {why}; input {C.sx(las)[:200]}", {"kind": "att", "las": las, "impl": a, "why": why}))
        if model and a != mod.get(i):
            mism.append(f"build_file_attestation {C.sx(las)[:120]}: impl {a[:100]} model {(mod.get(i) or '')[:100]}")
    cov["attestation_inputs_with_inverted_or_zero_lines(no oracle)"] = n_mal

    n4 = 300 if quick else 6000
    cases, raws = [], {}
    for i in range(n4):
        rr = r.fork(f"va{i}")
        files = []
        for p in rr.shuffle(["a.rs", "b b.py", "é.txt", "z/y.c"])[:rr.range(0, 3)]:
            files.append([C.cps(p), gen_las(rr)])
        cases.append((f"v{i}", C.sx(files)))
        raws[f"v{i}"] = files
    impl, mod = both("c05-valog", cases)
    for i, _ in cases:
        evaluations += 1
        a = impl.get(i)
        if a is None or a == "panic" or not a.endswith(" 1"):
            violations.append((f"to_authorship_log: {a}", {"kind": "valog", "files": raws[i], "impl": a}))
            continue
        outs = {C.uncps(f[0]): C.sx(f) for f in C.sx_parse_many(a)[0]}
        for p, las in raws[i]:
            why = att_oracle(las, outs.get(C.uncps(p), "none"))
            if why:
                violations.append((f"to_authorship_log {C.uncps(p)!r}: {why}", {"kind": "valog", "files": raws[i], "impl": a}))
        if raws[i]:
            distinct.add(("va", C.sx(raws[i])))
        if model and a != mod.get(i):
            mism.append(f"to_authorship_log {C.sx(raws[i])[:120]}: impl {a[:100]} model {(mod.get(i) or '')[:100]}")
    cases = []
    for i in range(n4):
        rr = r.fork(f"up{i}")
        names = rr.shuffle(["a", "b", "c d", "é"])[:rr.range(0, 4)]
        if rr.chance(1, 4) and names:
            names.append(names[0])
        cases.append((f"u{i}", " ".join([C.sx([C.cps(x) for x in names]), C.sx(C.cps(rr.pick(["a", "b", "zz", "c d"]))),
                                         C.sx(gen_las(rr)), str(rr.below(2))])))
    impl, mod = both("c05-upsert", cases)
    for i, body in cases:
        evaluations += 1
        a = impl.get(i)
        xs = C.sx_parse_many(body)
        names, path, ex = [C.uncps(x) for x in xs[0]], C.uncps(xs[1]), xs[3]
        if a and a != "panic":
            got = [C.uncps(x) for x in C.sx_parse_many(a)[0]]
            if got.count(path) > 1 or (ex == 0 and path in got) or [x for x in got if x != path] != [x for x in names if x != path]:
                violations.append((f"upsert_file_attestation leaves {got} from {names} for {path!r}", {"kind": "upsert", "case": body, "impl": a}))
        if model and a != mod.get(i):
            mism.append(f"upsert {body[:100]}: impl {a} model {mod.get(i)}")

    # ---------------------------------------------------------------- merge_attributions_favoring_first (squash / CI rewrite)
    n45 = 700 if quick else 15000
    cases, raws = [], {}
    for i in range(n45):
        pr, se, fi = gen_merge_case(r.fork(f"mg{i}"))
        raws[f"m{i}"] = (pr, se, fi)
        enc = lambda v: C.sx([[C.cps(p), C.cps(c), a] for p, c, a in v])
        cases.append((f"m{i}", enc(pr) + " " + enc(se) + " " + C.sx([[C.cps(p), C.cps(c)] for p, c in fi])))
    impl = C.run_cases(C.VHARNESS, "c05-merge", cases)
    mcs = [(i, " ".join(C.sx([C.cps(p) for p, *_ in v]) for v in raws[i])) for i, _ in cases]
    mod = C.run_cases(C.driver_path("notes"), "c05-merge", mcs) if model else {}
    tracker_bad = []
    n_absent = 0
    for i, _ in cases:
        evaluations += 1
        a = impl.get(i)
        pr, se, fi = raws[i]
        if a is None or a in ("panic", "err"):
            violations.append((f"merge_attributions_favoring_first: {a}", {"kind": "merge", "primary": pr, "secondary": se, "final": fi}))
            continue
        out = C.sx_parse_many(a)[0]
        keys = [C.uncps(f[0]) for f in out]
        fkeys = {p for p, _ in fi}
        inputs = {p for p, *_ in pr} | {p for p, *_ in se}
        if inputs - fkeys:
            n_absent += 1
            distinct.add(("merge", a, str(fi)))
        # oracle: a file that is not part of the final state (not in the resulting commit) is not emitted
        extra = [k for k in keys if k not in fkeys]
        if extra:
            violations.append((f"merge_attributions_favoring_first emits {extra} which are not in the final state {sorted(fkeys)} "
                               f"(primary {[p for p, *_ in pr]}, secondary {[p for p, *_ in se]})",
                               {"kind": "merge", "primary": pr, "secondary": se, "final": fi, "impl": a}))
        # monitor of the theorem's tracker hypothesis: line attributions lie inside the final content
        fin = dict((p, c) for p, c in fi)
        for f in out:
            p, lc = C.uncps(f[0]), f[1]
            want_lc = line_count(fin[p]) if p in fin else lc
            for la in f[2]:
                if not (1 <= la[0] <= la[1] <= want_lc):
                    tracker_bad.append(f"{p}: lines {la[0]}-{la[1]} of {want_lc}")
        if model:
            mk = [C.uncps(x) for x in C.sx_parse_many(mod.get(i, "()"))[0]]
            if sorted(mk) != sorted(keys):
                mism.append(f"merge_favoring_first files: impl {sorted(keys)} model {sorted(mk)} (final {sorted(fkeys)})")
    obligations.append(("monitor:line attributions of a merged file lie inside its final content (hypothesis of C05_squash_note_ok)",
                        not tracker_bad, "; ".join(tracker_bad[:3])))
    cov["merge_cases_with_a_file_absent_from_final_state"] = n_absent

    # ---------------------------------------------------------------- remap
    n5 = 1200 if quick else 30000
    cases, raws = [], {}
    kinds = {}
    for i in range(n5):
        rr = r.fork(f"rm{i}")
        k, note, _ = gen_note(rr)
        kinds[k] = kinds.get(k, 0) + 1
        tgt = rr.pick(["f" * 40, "", "abc", "".join(rr.pick(HEX) for _ in range(40))])
        raws[f"r{i}"] = (note, tgt)
        cases.append((f"r{i}", C.sx(list(note.encode())) + " " + C.sx(list(tgt.encode()))))
    wit_note = '"base_commit_sha":"x\n  h 1\n---\n{"base_commit_sha": "a"}'
    raws["rwit"] = (wit_note, "b")
    cases.append(("rwit", C.sx(list(wit_note.encode())) + " " + C.sx(list(b"b"))))
    impl = C.run_cases(C.VHARNESS, "c05-remap", cases)
    mod = C.run_cases(C.driver_path("notes"), "c05-remap", cases) if model else {}
    n_known_remap = 0
    for i, _ in cases:
        evaluations += 1
        a = impl.get(i)
        note, tgt = raws[i]
        if a is None or a == "panic" or a == "badutf8":
            violations.append((f"remap panicked on {note[:120]!r}", {"kind": "remap", "note": note, "target": tgt, "impl": a}))
            continue
        xs = C.sx_parse_many(a)
        try_part = C.sx(xs[0])
        full = bytes(xs[1][1]).decode("utf-8", "replace")
        if FIELD in note:
            distinct.add(("remap", note, tgt))
        why = remap_oracle(note, tgt, full)
        if why:
            # (the class `field literal inside the attestation section` was repaired: it excuses nothing any more)
            n_known_remap += 1 if note_known_remap(note) else 0
            violations.append((f"remap_note_content_for_target_commit: {why}; note {note[:160]!r}",
                               {"kind": "remap", "note": note, "target": tgt, "result": full, "why": why}))
        if model and try_part != mod.get(i):
            mism.append(f"try_remap {note[:80]!r}: impl {try_part[:80]} model {(mod.get(i) or '')[:80]}")
    cov["remap_note_kinds"] = kinds
    cov["remap_failures_with_the_field_literal_in_a_file_name"] = n_known_remap

    # ---------------------------------------------------------------- notes tree on real repositories
    n6 = 96 if quick else 1200
    tcases = []
    for i in range(n6):
        tree, es, qs = gen_tree_case(r.fork(f"tree{i}"))
        tcases.append((f"t{i}", tree, es, qs))
    # fixed: the model's own witness shape, a flat+fan-out tree, a 2-character name
    k0 = "ab" + "c" * 38
    tcases.append(("twit", [(comps(k0, 2), 1)], [(k0, 2)], [k0]))
    tcases.append(("tmix", [(comps(k0, 0), 1), (comps("ab" + "d" * 38, 1), 2)], [(k0, 3), ("ab" + "d" * 38, 4), (k0, 5)], [k0, "ab" + "d" * 38]))
    tcases.append(("tshort", [(comps(k0, 1), 1)], [("ab", 2)], [k0, "ab"]))
    nw = min(C.NCPU, 12)
    chunks = [tcases[i::nw] for i in range(nw)]
    real = {}
    for part in C.parallel_map(tree_cases, [(ctx.scratch, w, ch) for w, ch in enumerate(chunks) if ch]):
        if isinstance(part, dict) and "error" in part:
            violations.append(("engine error " + part["error"][-300:], part))
            continue
        for x in part:
            real[x["id"]] = x
    mcases = [(cid, " ".join([tree_sx(tree), C.sx([[C.cps(k), b] for k, b in es]), C.sx([C.cps(q) for q in qs])]))
              for cid, tree, es, qs in tcases]
    mres = C.run_cases(C.driver_path("notes"), "c05-tree", mcases) if model else {}
    n_deep = n_dup_known = 0
    git_fact_bad = []
    for cid, tree, es, qs in tcases:
        evaluations += 1
        x = real.get(cid)
        if x is None:
            continue
        deep = any(len(p) > 2 for p, _ in tree)
        keys_before = [("".join(p)) for p, _ in tree]
        unique_before = len(set(keys_before)) == len(keys_before)
        if deep:
            n_deep += 1
        distinct.add(("tree", str(tree), str(es)))
        # oracle: exactly one tree entry per annotated object after the batch write
        keys_after = ["".join(p) for p, _ in x["tree"]]
        dup = sorted({k for k in keys_after if keys_after.count(k) > 1})
        if x["write"] != "ok":
            violations.append((f"notes_add_batch failed on tree {tree}", {"kind": "tree", "tree": tree, "entries": es, "impl": x}))
        elif dup and unique_before:
            n_dup_known += 1 if deep else 0
            violations.append((f"two tree entries for {dup} after notes_add_batch on {tree}", {"kind": "tree", "tree": tree, "entries": es, "impl": x}))
        # oracle: the batched lookup finds what git's reader finds
        for phase in ("before", "after"):
            lk, gl = x[phase]
            for q, a, g in zip(qs, lk, gl):
                if len(q) != 40 or len(g) > 1:      # an object annotated twice is excluded by unique_keys
                    continue
                if (a == "none") != (g == []) or (a != "none" and a not in g):
                    tr = tree if phase == "before" else x["tree"]
                    violations.append((f"lookup of {q[:8]} gives {a}, git's reader {g} ({phase}) on {tr}",
                                       {"kind": "tree-lookup", "tree": tree, "entries": es, "impl": x}))
        if model and cid in mres:
            m = {e[0]: e[1:] for e in C.sx_parse_many(mres[cid])}
            mtree = sorted(([C.uncps(c) for c in p], b) for p, b in m["tree"][0])
            if mtree != x["tree"]:
                mism.append(f"batch_write on {tree} with {es}: impl tree {x['tree']} model {mtree}")
            for phase in ("before", "after"):
                mlk = [v for v in m[phase][0][1:]]
                mgl = [v for v in m[phase][1][1:]]
                lk, gl = x[phase]
                if mlk != lk:
                    mism.append(f"lookup ({phase}) on {tree}: impl {lk} model {mlk}")
                for q, a, b in zip(qs, gl, mgl):
                    if len(q) == 40 and a != b:
                        git_fact_bad.append(f"git reader ({phase}) for {q[:8]} on {tree}: git {a} model {b}")
            # monitors of the theorems' hypotheses / conclusions on real data
            le1_b, le1_a = m["le1"]
            un_b, un_a = m["unique"]
            if le1_b == 1 and un_b == 1 and (un_a != 1 or le1_a != 1):
                mism.append(f"theorem instance fails in the extracted model on {tree}")
    obligations.append(("monitor:git facts G1/G2 (reader finds notes at any depth, concatenates duplicates) on hand-made trees",
                        not git_fact_bad and model, "; ".join(git_fact_bad[:2])))
    cov["tree_cases"] = {"total": len(tcases), "with_depth>=2": n_deep, "duplicates_on_deep_trees": n_dup_known}

    obligations.append(("tie:correspondence Model/NotesTree.v + Model/NoteOk.v vs Rust (in-process and on real repositories)",
                        model and not mism, "; ".join(mism[:3]) if mism else ("" if model else "model did not build")))

    # ---------------------------------------------------------------- (a) generated histories
    n_h = 170 if quick else 2500
    n_n = 60 if quick else 800
    jobs = [(ctx.scratch, ctx.seed, i, {"max_ops": 10}) for i in range(n_h)] + \
           [(ctx.scratch, ctx.seed, i, {"max_ops": 9, "nasty": True}) for i in range(n_n)]
    fan_jobs = [(ctx.scratch, i, d, op) for i, (d, op) in enumerate(
        (d, op) for d in (0, 1, 2) for op in ("rebase_drop", "rebase_plain", "cherry_pick", "amend", "commit"))]
    res = C.parallel_map(scenario, jobs)
    ops_hist, kind_hist, known_hits = {}, {}, {}
    steps = notes_checked = slow_steps = fast_steps = 0
    shapes = {}
    samples = []
    for r_ in res:
        if "error" in r_:
            violations.append(("engine error " + r_["error"][-300:], r_))
            continue
        evaluations += 1
        steps += r_["steps"]
        notes_checked += r_["notes_checked"]
        slow_steps += r_.get("slow_steps", 0)
        fast_steps += r_.get("fast_steps", 0)
        shapes[r_.get("shape")] = shapes.get(r_.get("shape"), 0) + 1
        for t in r_.get("trace", []):
            ops_hist[t[0]] = ops_hist.get(t[0], 0) + 1
        if r_["notes_checked"] > 1:
            distinct.add(("hist", r_["nasty"], str(r_.get("trace"))))
        if len(samples) < 3:
            samples.append({"files": r_.get("names"), "trace": [str(t) for t in r_.get("trace", [])[:8]],
                            "notes_checked": r_["notes_checked"], "failures": [f["kind"] for f in r_["failures"]]})
        for f in r_["failures"]:
            kind_hist[f["kind"]] = kind_hist.get(f["kind"], 0) + 1
            if f.get("known"):
                known_seen.add(f["known"])
                known_hits[f["known"][:6] + ":" + f["kind"]] = known_hits.get(f["known"][:6] + ":" + f["kind"], 0) + 1
            else:
                violations.append((f"note of {f['commit'][:10]} after {f['op']} (step {f['k']}, slow path {f['slow_path']}): "
                                   f"{f['kind']}: {f['detail'][:160]}; files {r_.get('names')}",
                                   {"kind": "history", "failure": f, "trace": r_.get("trace"), "files": r_.get("names"),
                                    "commands": r_.get("log")}))
    cov["history"] = {"scenarios": len(res), "steps": steps, "notes_checked": notes_checked, "ops": ops_hist,
                      "failure_kinds": kind_hist, "known_class_hits": known_hits, "shapes": shapes,
                      "steps_with_content_replay": slow_steps, "steps_with_fast_path_remap": fast_steps}

    # ---------------------------------------------------------------- (b) fan-out matrix + natural large ref
    fres = C.parallel_map(fan_case, fan_jobs)
    nat = C.parallel_map(natural_case, [(ctx.scratch, 70000)])
    matrix = {}
    for x in fres:
        if "error" in x:
            violations.append(("engine error " + x["error"][-300:], x))
            continue
        evaluations += 1
        matrix[f"depth{x['depth']}/{x['op']}"] = "ok" if not x["fail"] else x["fail"][0][:160]
        if x["fail"]:
            violations.append((f"fan-out depth {x['depth']}, {x['op']}: {x['fail'][0]}", {"kind": "fanout", "case": x}))
    for x in nat:
        evaluations += 1
        if "error" in x:
            violations.append(("engine error " + x["error"][-300:], x))
        else:
            matrix["natural-70000-notes/rebase_plain"] = "ok" if not x["fail"] else x["fail"][0][:160]
            cov["natural_fanout_depth_chosen_by_git"] = x["depth_seen"]
            if x["fail"]:
                violations.append((f"notes ref with {x['n']} notes (git stores notes {x['depth_seen']} levels deep): {x['fail'][0]}",
                                   {"kind": "fanout-natural", "case": x,
                                    "history": "70 000 notes created with fast-import; feature branch with one AI commit; "
                                               "unrelated commit on main; git rebase main"}))
    cov["fanout_matrix"] = matrix

    # ---------------------------------------------------------------- witnesses of the known classes
    if remap_witness(ctx.scratch):
        violations.append(("regression of a repaired defect (C05-K3): a file named \"base_commit_sha\":\"x with an AI line, "
                           "fast-path git rebase main -> the note of the rebased commit is unreadable",
                           {"kind": "squash-deleted-witness", "label": "C05-K3 remap witness"}))
    pr = squash_deleted_witness(ctx.scratch)
    cov["squash_deleted_witness"] = pr or "ok"
    if pr:
        violations.append((f"squash-authorship after the target branch deleted x.txt: {pr[0]}",
                           {"kind": "squash-deleted-witness", "problems": pr,
                            "history": "base a.txt,x.txt; feat: AI appends to a.txt and x.txt (F1); main: git rm x.txt (M1); "
                                       "git merge --squash feat, git rm x.txt, git commit (S); git-ai squash-authorship main S F1"}))
    kh, in_diff = conflict_by_hand_witness(ctx.scratch, "hand")
    cov["conflict_by_hand_witness"] = kh or "ok"
    if kh:
        violations.append((f"rebase with a conflict resolved by hand (no agent line kept): the note of the rebased commit has {kh}",
                           {"kind": "squash-deleted-witness", "problems": kh,
                            "history": "base f.txt (2 lines), g.txt; feature: AI appends 8 lines to f.txt, a person edits g.txt; main appends "
                                       "one line to f.txt; git rebase main; f.txt typed as main's 3 lines + 1 own line; git add; git rebase --continue"}))
    ko, in_diff_o = conflict_by_hand_witness(ctx.scratch, "ours")
    cov["conflict_checkout_ours_witness"] = {"problems": ko, "f.txt_in_own_diff": in_diff_o}
    if ko:
        if in_diff_o is False and set(ko) <= REPLAY_KINDS:
            known_seen.add("C05-K2 note written by the rebase / cherry-pick content replay: lists lines beyond the end of the file")
        else:
            violations.append((f"rebase with the conflict resolved by checkout --ours: {ko}", {"kind": "history", "problems": ko}))
    evaluations += 2
    kinds2 = replay_delete_witness(ctx.scratch)
    cov["replay_delete_witness_breaks"] = kinds2
    if "file_absent" in kinds2:
        known_seen.add("C05-K2 note written by the rebase / cherry-pick content replay: names a file absent from the commit")
    kinds = replay_witness(ctx.scratch)
    evaluations += 4
    cov["replay_witness_breaks"] = kinds
    if "file_absent" in kinds:
        known_seen.add("C05-K2 note written by the rebase / cherry-pick content replay: names a file absent from the commit")
    if "line_oob" in kinds:
        known_seen.add("C05-K2 note written by the rebase / cherry-pick content replay: lists lines beyond the end of the file")

    # concrete histories first (the replay files are written for the first five)
    prio = {"squash-deleted-witness": 0, "history": 1, "fanout": 2, "fanout-natural": 2}
    violations.sort(key=lambda v: prio.get(v[1].get("kind") if isinstance(v[1], dict) else None, 5))
    return {
        "obligations": obligations,
        "violations": violations,
        "known_seen": sorted(known_seen),
        "searched": f"{n1} object names, {n2} batch-check lines, {n3}+{2 * n4} builder inputs, {n5} notes through the remap, "
                    f"{len(tcases)} hand-made notes trees under notes_add_batch, {len(res)} generated histories "
                    f"({steps} steps, {notes_checked} notes parsed and compared with their commits), fan-out matrix "
                    f"{len(fres)} cells + one 70 000-note ref; {len(mism)} model/impl mismatches: " + "; ".join(mism[:4]),
        "coverage": dict(cov, **{
            "evaluations": evaluations,
            "distinct_nontrivial": len(distinct),
            "rule": "in-process: object names (hex / short / multibyte / slash), cat-file lines, line attributions "
                    "(overlapping, unsorted, duplicated, adjacent, at u32::MAX; inverted and zero lines in a separate stream "
                    "without oracle), notes for the remap (valid pretty/compact, file names containing the field literal, "
                    "malformed); real repositories: trees of 1-6 keys at depth 0-3 (one third with depth >= 2, some objects "
                    "annotated twice) and 1-5 batch entries; histories: 4-10 ops over edit / commit / partial commit / amend / "
                    "branch / switch / rebase / rebase -i / cherry-pick / reset / stash / pop / squash merge / CI squash rewrite, stopped at the "
                    "first failing step; a second stream with blanks, quotes, unicode, dashes and the delimiter-equal names. "
                    "Non-trivial = name longer than two bytes / accepted cat-file line / >= 2 intervals / note containing the "
                    "field literal / any tree case / history with >= 2 notes checked; distinct by input",
            "samples": samples,
            "correspondence_mismatches": len(mism),
        }),
    }
