"""C01 (format slice) — the text protocol between `git diff -U0 --no-color --no-renames` and
git-ai's scanners of added lines (parse_diff_added_lines, ..._with_insertions, parse_hunk_header,
normalize_diff_path_token, unescape_git_path).  Called from vlib/c01.py as run_fmt(ctx).

Tie:  (C) Model/DiffFmt.v (extracted) vs the Rust functions in-process: on rendered documents, on
          real `git diff` output, and on arbitrary text (mutations, soup, crafted lines);
      (R) render validation: hunks extracted from real `git diff -U0` output by a strict Python
          parser that relies on the hunk counts (paths from `--name-only -z`) are re-rendered by
          the model's `render` and compared byte for byte with git's output.
Oracle (independent of the model): on every real `git diff` output the Rust scanners must return
      exactly the per-file new-side line numbers found by the strict Python parser.
"""
import os
import re
import shutil
import subprocess
from . import common as C

GEN_FILES = []
DRIVERS = ["difffmt"]
THEOREMS = [
    "C01_fmt_parse_render", "C01_fmt_parse_render_with_insertions", "C01_fmt_former_witnesses",
    "C01_fmt_quotepath_independent",
    "C01_fmt_hunk_header", "C01_fmt_hunk_header_total", "C01_fmt_hunk_header_overflow_refuted",
    "C01_fmt_unescape_quote", "C01_fmt_unescape_lone_quote",
    "C01_fmt_lossy_roundtrip", "C01_fmt_nonvacuous",
]
TRUSTED_BASE = [
    "Coq 8.16.1 kernel (coqc); no axioms (Print Assumptions: closed under the global context)",
    "extraction: ExtrOcamlBasic only; OCaml 4.13.1; coq/Extract/d_difffmt.ml",
    "harness/src/p_c01fmt.rs + vlib/c01fmt.py (generators, strict reference parser of git output, canonicalisation)",
    "modelled by hand, tied by differential runs: Rust str::lines/trim/split_whitespace/split/strip_prefix, "
    "u32::from_str, String::from_utf8_lossy (Model dec, compared on byte soup), char::encode_utf8; "
    "git's quote_c_style/quote_two, header and hunk-header layout (Model render, compared byte for byte "
    "with /usr/bin/git on generated tree pairs)",
]
ASSUMPTIONS = [
    "git is run with the PatchParse profile (prefixes a/ b/, no colour, no renames, no ext-diff/textconv), text files only "
    "(binary files print no +++ line and no hunks)",
    "core.quotePath=true for the theorem; core.quotePath=false is covered for ASCII paths by "
    "C01_fmt_quotepath_independent and otherwise only by the differential runs",
    "line numbers below 2^31 (u32 start+count cannot overflow); in debug builds an overflowing header panics",
]

# Former known classes C01-K1 (added line beginning with '++ '), C01-K2 (unquoted path ending in whitespace),
# C01-K3 (path with BEL/BS/VT/FF) are repaired in the code this check describes: nothing is excused any more,
# their witnesses are part of the corpus (git_worker: CORPUS) and must pass.

NONL = b"\\ No newline at end of file"
PROFILE = ["--no-ext-diff", "--no-textconv", "--src-prefix=a/", "--dst-prefix=b/", "--no-relative", "--no-color",
           "--diff-algorithm=default", "--indent-heuristic", "--inter-hunk-context=0"]
WS = set([9, 10, 11, 12, 13, 32, 0x85, 0xa0, 0x1680, 0x2028, 0x2029, 0x202f, 0x205f, 0x3000] + list(range(0x2000, 0x200b)))


# ------------------------------------------------------------------ strict reference parser
class Strict(Exception):
    pass


HH = re.compile(rb"^@@ -(\d+)(?:,(\d+))? \+(\d+)(?:,(\d+))? @@(?: (.*))?$", re.S)
IDX = re.compile(rb"^index ([0-9a-f]+)\.\.([0-9a-f]+)(?: (\d+))?$")


def strict_parse(out, names):
    """git diff -U0 output (bytes) + raw names from --name-only -z -> document
    [{path,new,del,mode,oo,on,hunks:[{os,old,onl,ns,new,nnl,sec}]}].  Relies on hunk counts only."""
    if out and not out.endswith(b"\n"):
        raise Strict("output does not end in LF")
    ls = out.split(b"\n")[:-1] if out else []
    i, doc = 0, []
    while i < len(ls):
        if not ls[i].startswith(b"diff --git "):
            raise Strict(f"expected diff --git at line {i}: {ls[i][:60]!r}")
        i += 1
        f = {"new": 0, "del": 0, "mode": b"", "oo": b"", "on": b"", "hunks": []}
        while i < len(ls) and not ls[i].startswith((b"--- ", b"diff --git ")):
            l = ls[i]
            if l.startswith(b"new file mode "):
                f["new"], f["mode"] = 1, l[14:]
            elif l.startswith(b"deleted file mode "):
                f["del"], f["mode"] = 1, l[18:]
            elif IDX.match(l):
                m = IDX.match(l)
                f["oo"], f["on"] = m.group(1), m.group(2)
                if m.group(3) is not None:
                    f["mode"] = m.group(3)
            else:
                raise Strict(f"unexpected extended header {l[:60]!r}")
            i += 1
        if i < len(ls) and ls[i].startswith(b"--- "):
            if i + 1 >= len(ls) or not ls[i + 1].startswith(b"+++ "):
                raise Strict("--- without +++")
            i += 2
            while i < len(ls) and ls[i].startswith(b"@@ "):
                m = HH.match(ls[i])
                if not m:
                    raise Strict(f"bad hunk header {ls[i][:60]!r}")
                oc = 1 if m.group(2) is None else int(m.group(2))
                nc = 1 if m.group(4) is None else int(m.group(4))
                h = {"os": int(m.group(1)), "ns": int(m.group(3)), "old": [], "new": [], "onl": 0, "nnl": 0,
                     "sec": m.group(5) or b""}
                i += 1
                for _ in range(oc):
                    if i >= len(ls) or not ls[i].startswith(b"-"):
                        raise Strict("old count not met")
                    h["old"].append(ls[i][1:])
                    i += 1
                if i < len(ls) and ls[i] == NONL and oc > 0:
                    h["onl"] = 1
                    i += 1
                for _ in range(nc):
                    if i >= len(ls) or not ls[i].startswith(b"+"):
                        raise Strict("new count not met")
                    h["new"].append(ls[i][1:])
                    i += 1
                if i < len(ls) and ls[i] == NONL and nc > 0:
                    h["nnl"] = 1
                    i += 1
                f["hunks"].append(h)
            if not f["hunks"]:
                raise Strict("--- +++ without hunks")
        doc.append(f)
    if len(doc) != len(names):
        raise Strict(f"{len(doc)} file sections but {len(names)} names")
    for f, n in zip(doc, names):
        f["path"] = n
    return doc


def doc_sx(doc):
    return [[list(f["path"]), f["new"], f["del"], list(f["mode"]), list(f["oo"]), list(f["on"]),
             [[h["os"], [list(x) for x in h["old"]], h["onl"], h["ns"], [list(x) for x in h["new"]], h["nnl"],
               list(h["sec"])] for h in f["hunks"]]] for f in doc]


def expected_maps(doc):
    """{path bytes: [lines]} for all added lines / pure insertions, from the strict parse; deleted files excluded."""
    alls, ins = {}, {}
    for f in doc:
        if f["del"]:
            continue
        for h in f["hunks"]:
            rng = list(range(h["ns"], h["ns"] + len(h["new"])))
            if rng:
                alls.setdefault(f["path"], []).extend(rng)
                if not h["old"]:
                    ins.setdefault(f["path"], []).extend(rng)
    return alls, ins


def must_quote(qp, b):
    return b < 32 or b in (34, 92, 127) or (qp and b >= 128)


def map_of(x):
    """((KEY (n...)) ...) -> {str: [n]}"""
    return {C.uncps(e[0]): e[1] for e in x}


# ------------------------------------------------------------------ real git scenarios
NAME_POOL = [
    b"f.txt", b"src/main.rs", b"dir with space/b.py", b"tab\there", b'q"uote.txt', b"back\\slash", "c-\u00e9.txt".encode(),
    "\u65e5\u672c\u8a9e.txt".encode(), "\U0001F600.md".encode(), b"-dash.md", b"--", b"trail ", b"trail2  ", b"a/x", b"a/a/y", b"b",
    b"b2/b/z", b" lead", b"new\nline", b"bel\x07", b"bs\x08x", b"vt\x0bx", b"ff\x0cx", b"cr\rx", b"del\x7f", b"esc\x1b[0m",
    b"\xff\xfe", b"bad\xc3", "nbsp\u00a0".encode(), "ideo\u3000".encode(), b"dev/null", b"c/w/i/o", b"w/x", b"'single'", b"+++ b", b"@@ -1 +1 @@",
    b"x\"", b"\"", b"\"q\"", b"sp ace", b"a b\"c", b"z\\n", b"\\", b"o\\101", b"8\\8", b"e\xcc\x81", b"y ", "\u0085".encode(),
]
LINE_POOL = [
    b"alpha", b"beta", b"gamma", b"", b" ", b"\t", b"++ weird", b"++ b/f.txt", b"++ /dev/null", b"++ \"", b"++ \"b/x\"", b"++", b"+ x",
    b"-- y", b"-- a/f.txt", b"--", b"@@ -1 +1 @@", b"@@ -0,0 +1,5 @@ fn", b"@", b"\\ No newline at end of file", b"\\",
    b"diff --git a/x b/x", b"index 123..456 100644", b"+++ b/x", b"--- a/x", b"new file mode 100644", b"crlf\r", b"\r", b"++ cr\r",
    "\u00e9t\u00e9 \u65e5\u672c".encode(), b"\xff\xfe bad utf8 \xc3", b"\xe2\x82", b"fn alpha() {", b"    let x = 1;", b"}", b"class Foo:",
    b"def " + "\u00e9".encode() * 45 + b"(self):", b"int main(void) /* " + b"x" * 90 + b" */", b"$dollar", b"_under @@ -3 +3 @@ x",
    b"static void @@ f", b"label:", b"++ x \"y\"", b"+++", b"++\t", b"l1", b"l2", b"l3", b"l4", b"l5", b"l6", b"l7", b"l8", b"l9",
]


def conflicts(name, chosen):
    for c in chosen:
        if c == name or c.startswith(name + b"/") or name.startswith(c + b"/"):
            return True
    return False


def gen_lines(r, n):
    return [r.pick(LINE_POOL) if r.chance(2, 3) else b"line %d" % r.below(1000) for _ in range(n)]


def edit_lines(r, a):
    b = list(a)
    for _ in range(r.range(1, 4)):
        k = r.weighted([(4, "ins"), (3, "del"), (3, "rep"), (1, "app")])
        if k == "ins" or not b:
            pos = r.range(0, len(b))
            b[pos:pos] = gen_lines(r, r.range(1, 3))
        elif k == "del":
            pos = r.below(len(b))
            del b[pos:pos + r.range(1, 2)]
        elif k == "rep":
            pos = r.below(len(b))
            b[pos:pos + r.range(1, 2)] = gen_lines(r, r.range(1, 3))
        else:
            b.extend(gen_lines(r, r.range(1, 2)))
    return b


def blob(r, ls):
    if not ls:
        return b""
    return b"\n".join(ls) + (b"" if r.chance(1, 5) else b"\n")


def git_env(base):
    env = {"PATH": "/usr/bin:/bin", "HOME": base, "GIT_CONFIG_GLOBAL": os.path.join(base, "gitconfig"),
           "GIT_CONFIG_NOSYSTEM": "1", "LC_ALL": "C", "GIT_TERMINAL_PROMPT": "0"}
    return env


def git(repo, env, *args):
    p = subprocess.run(["/usr/bin/git"] + list(args), cwd=repo, env=env, stdout=subprocess.PIPE, stderr=subprocess.PIPE)
    if p.returncode != 0:
        raise RuntimeError(f"git {args} failed: {p.stderr[:300]!r}")
    return p.stdout


def write_tree(repo, env, files):
    for e in os.listdir(os.fsencode(repo)):
        if e == b".git":
            continue
        p = os.path.join(os.fsencode(repo), e)
        if os.path.isdir(p) and not os.path.islink(p):
            shutil.rmtree(p)
        else:
            os.unlink(p)
    for name, data in files.items():
        p = os.path.join(os.fsencode(repo), name)
        os.makedirs(os.path.dirname(p), exist_ok=True)
        with open(p, "wb") as f:
            f.write(data)
    git(repo, env, "add", "-A")
    return git(repo, env, "write-tree").strip().decode()


BASE5 = b"l1\nl2\nl3\nl4\nl5\n"
CORPUS = [
    ({b"f.txt": BASE5}, {b"f.txt": b"l1\n++ weird\nl2\nl3\nl4\nai later\nl5\n"}),          # former C01-K1
    ({b"f.txt": BASE5}, {b"f.txt": b"l1\n++ \"\nl2\nl3\nl4\nai later\nl5\n"}),             # former C01-K1, panic sub-case
    ({b"f.txt": BASE5}, {b"f.txt": b"l1\n++ /dev/null\nl2\nl3\nl4\nai later\nl5\n"}),
    ({b"trail ": BASE5}, {b"trail ": b"l1\nai\nl2\nl3\nl4\nl5\n"}),                         # former C01-K2
    ({}, {b"new  ": b"ai\n", "nbsp\u00a0".encode(): b"ai\n"}),
    ({b"bel\x07x": BASE5}, {b"bel\x07x": b"l1\nai\nl2\nl3\nl4\nl5\n"}),                   # former C01-K3
    ({}, {b"\x08\x0b\x0c": b"ai\n"}),
]


def git_worker(args):
    base, seed, widx, n = args
    r = C.Rng(seed).fork(f"c01fmt-git-{widx}")
    wd = os.path.join(base, f"w{widx}")
    repo = os.path.join(wd, "repo")
    os.makedirs(repo)
    env = git_env(wd)
    open(env["GIT_CONFIG_GLOBAL"], "w").close()
    git(repo, env, "init", "-q")
    out = []
    for s in range(n):
        corpus = CORPUS[s] if (widx == 0 and s < len(CORPUS)) else None
        names = []
        for _ in range(r.range(1, 5)):
            nm = r.pick(NAME_POOL) if r.chance(4, 5) else b"gen%d.txt" % r.below(50)
            if not conflicts(nm, names):
                names.append(nm)
        ta, tb = {}, {}
        if corpus:     # regression witnesses of the repaired classes
            ta, tb = corpus
        else:
            for nm in names:
                kind = r.weighted([(6, "mod"), (2, "new"), (2, "del"), (1, "same"), (1, "newempty"), (1, "fromempty")])
                a = gen_lines(r, r.range(1, 12))
                if kind == "mod":
                    ta[nm], tb[nm] = blob(r, a), blob(r, edit_lines(r, a))
                elif kind == "new":
                    tb[nm] = blob(r, a)
                elif kind == "del":
                    ta[nm] = blob(r, a)
                elif kind == "same":
                    ta[nm] = tb[nm] = blob(r, a)
                elif kind == "newempty":
                    tb[nm] = b""
                else:
                    ta[nm], tb[nm] = b"", blob(r, a)
        qp = 0 if (r.chance(1, 4) and corpus is None) else 1
        if corpus is not None and s == 4:
            qp = 0          # unquoted name ending in NBSP
        try:
            A = write_tree(repo, env, ta)
            B = write_tree(repo, env, tb)
            cfg = ["-c", "core.quotePath=" + ("true" if qp else "false")]
            text = git(repo, env, *cfg, "diff", "-U0", "--no-color", "--no-renames", *PROFILE, A, B)
            nz = git(repo, env, *cfg, "diff", "--name-only", "-z", "--no-renames", A, B)
            out.append({"id": f"g{widx}_{s}", "qp": qp, "text": text, "names": [x for x in nz.split(b"\0") if x],
                        "a": ta, "b": tb})
        except Exception as e:  # noqa
            out.append({"id": f"g{widx}_{s}", "error": repr(e)[:300]})
    shutil.rmtree(wd, ignore_errors=True)
    return out


# ------------------------------------------------------------------ synthetic documents / texts
def gen_doc(r):
    doc = []
    names = []
    for _ in range(r.weighted([(1, 0), (5, 1), (4, 2), (3, 3), (1, 5)])):
        nm = r.pick(NAME_POOL) if r.chance(5, 6) else bytes(r.pick([0x20, 0x22, 0x5c, 7, 9, 0x61, 0x2f, 0xc3, 0xa9, 0x7f, 0x30]) for _ in range(r.range(1, 5)))
        if nm in names and r.chance(9, 10):
            continue
        names.append(nm)
        kind = r.weighted([(7, "mod"), (2, "new"), (2, "del")])
        hunks = []
        line = 0
        for _ in range(r.weighted([(1, 0), (4, 1), (4, 2), (2, 3), (1, 6)])):
            big = r.chance(1, 25)
            gap = r.range(1, 30) if not big else r.pick([2 ** 31 - 40, 2 ** 31 - 3, 2 ** 32 - 3, 70000])
            ns = line + gap if not r.chance(1, 30) else r.below(5)       # sometimes unsorted / overlapping
            nn = r.weighted([(3, 0), (5, 1), (4, 2), (2, 5)])
            no = r.weighted([(4, 0), (4, 1), (2, 3)])
            if kind == "del":
                nn = 0 if r.chance(9, 10) else nn
            h = {"os": r.below(100), "old": gen_lines(r, no), "onl": int(no > 0 and r.chance(1, 8)),
                 "ns": ns if nn else max(ns - 1, 0), "new": gen_lines(r, nn), "nnl": int(nn > 0 and r.chance(1, 8)),
                 "sec": r.pick([b"", b"", b"fn alpha() {", b"@@ -9 +9,9 @@", b"x\r", "\u00e9".encode()])}
            h["old"] = [x.replace(b"\n", b"") for x in h["old"]]
            hunks.append(h)
            line = ns + nn
        doc.append({"path": nm, "new": int(kind == "new"), "del": int(kind == "del"), "mode": b"100644",
                    "oo": b"0000000" if kind == "new" else b"1a2b3c4", "on": b"0000000" if kind == "del" else b"5d6e7f8",
                    "hunks": hunks})
    return doc


CRAFT_LINES = [
    "+++ ", "+++", "+++ /dev/null  ", "+++ /dev/null", "+++ /dev/null\t", "+++ b/x", "+++ a/x", "+++ x", "+++ c/w/x", "+++ i/", "+++ o/b/a/x",
    "+++ \"b/x\"", "+++ \"b/x", "+++ b/x\"", "+++ \"", "+++ \" ", "+++ \"\"", "+++ \"\\\"", "+++ \"b/\\303\\251\"", "+++ \"b/\\303\"", "+++ \"b/\\8\\9\\400\\777\\1\\12\"",
    "+++ \"b/\\a\\b\\f\\v\\n\\t\\r\\\\\\\"\\x\"", "+++ \"b/\u00e9\\\"", "+++ b/x y\t", "+++ b/x \u00a0", "+++ b/x\u3000", "+++  b/x", "++++ b/x", " +++ b/x", "+++\tb/x",
    "@@ -1 +1 @@ fn", "@@ -0,0 +1 @@", "@@ @@", "@@", "@@ ", "@@ -1 +1", "@@ -1 +1 @", "@@ -1,0 +2,3 @@", "@@ -1,+0 +2,3 @@", "@@ -1,2,0 +5,2,9 @@", "@@ +7 -3,0 @@",
    "@@ --1,0 ++4,2 @@", "@@ -1 +4294967295 @@", "@@ -1 +4294967295,1 @@", "@@ -1 +4294967294,1 @@", "@@ -1 +4294967294,2 @@", "@@ -1 +4294967296 @@",
    "@@ -1 +1,4294967295 @@", "@@ -1 +0,4294967295 @@", "@@ -1 +5,0 @@", "@@ -1 +,5 @@", "@@ -1 +5, @@", "@@ -1, +5 @@", "@@ -a +5 @@", "@@ -1 +5x @@", "@@ -1 + @@",
    "@@ -1 @@", "@@ +1 @@", "@@ - + @@", "@@ -1\u00a0+3 @@", "@@\u3000-1 +3\u3000@@", "@@ -1 +3@@", "@@@ -1 -1 +1 @@@", "@@ -1 +2 +3 @@", "@@ -1 -2,0 +3 @@", "@@ x -1 +3 @@",
    "@@ -1 +3 @@ @@ -9 +9 @@", "@@ -1 +99999999999999999999 @@", "@@ -1,99999999999 +3 @@", "@@ -1 +03,02 @@", "@@ -1 ++3 @@", "@@ -1 +-3 @@", "@@  -1   +3,2   @@",
    "diff --git a/x b/x", "--- a/x", "-- ", "+x", "-x", "\\ No newline at end of file", "", " ", "\r", "+++ b/x\r", "@@ -1 +1 @@\r",
]


def gen_text(r, samples):
    k = r.weighted([(35, "mut"), (25, "soup"), (40, "craft")])
    if k == "mut" and samples:
        s = list(r.pick(samples))
        for _ in range(r.range(1, 4)):
            if not s:
                break
            i = r.below(len(s))
            op = r.below(4)
            ch = r.pick(list(' \t"+-@,\\\n\r019ab/') + ["\u00a0", "\u00e9"])
            if op == 0:
                del s[i]
            elif op == 1:
                s.insert(i, ch)
            elif op == 2:
                s[i] = ch
            else:
                j = r.below(len(s))
                i, j = min(i, j), max(i, j)
                del s[i:min(j, i + 40)]
        return k, "".join(s)
    if k == "soup":
        alpha = list(' \t"+-@,\\\n\r0189ab/') + ["+++ ", "@@ ", " @@", "\"b/", "\"\n", "b/", "/dev/null", "\u00a0", "\u00e9", "\u3000", "\\30", "+1,2 ", "-1,0 "]
        return k, "".join(r.pick(alpha) for _ in range(r.range(0, 30)))
    n = r.range(1, 6)
    sep = r.pick(["\n", "\n", "\r\n"])
    return k, sep.join(r.pick(CRAFT_LINES) for _ in range(n)) + r.pick(["", "\n"])


def safe_text(t):
    """avoid headers whose count would make the Rust side allocate gigabytes (not a panic, an OOM kill)"""
    for m in re.finditer(r"\+*(\d*),\+?(\d+)", t):
        try:
            c = int(m.group(2))
            s = int(m.group(1) or "0")
        except ValueError:
            continue
        if 200000 < c <= 4294967295 and s + c <= 4294967295:
            return False
    return True


# ------------------------------------------------------------------ the check
def run_fmt(ctx):
    r = ctx.rng.fork("c01fmt")
    import time
    T0 = time.time()
    timing = {}
    quick = ctx.tier == "quick"
    n_git_workers = min(C.NCPU, 8)
    n_git = (120 if quick else 1500)            # scenarios per worker
    n_doc = 5000 if quick else 60000
    n_txt = 8000 if quick else 120000
    n_hh = 8000 if quick else 120000
    n_path = 8000 if quick else 120000
    obligations, violations, known_seen = [], [], set()
    mismatches = []
    distinct = set()
    H, D = C.VHARNESS, C.driver_path("difffmt")
    model = ctx.model_ok
    stats = {"git_scenarios": 0, "git_files": 0, "git_hunks": 0, "git_errors": 0, "render_mismatch": 0,
             "oracle_fail": 0, "non_utf8_paths_skipped_in_oracle": 0, "qp_false": 0,
             "wf_true_docs": 0, "theorem_instances_checked": 0}

    # ---------------- (b)+(c) real git
    res = C.parallel_map(git_worker, [(ctx.scratch, ctx.seed, w, n_git) for w in range(n_git_workers)])
    scen = []
    for w in res:
        if isinstance(w, dict) and "error" in w:
            obligations.append(("monitor:git scenario engine", False, w["error"][-300:]))
            continue
        scen.extend(w)
    docs = {}
    strict_errors = []
    for s in scen:
        if "error" in s:
            stats["git_errors"] += 1
            continue
        try:
            docs[s["id"]] = strict_parse(s["text"], s["names"])
        except Strict as e:
            strict_errors.append(f"{s['id']}: {e}")
    obligations.append(("monitor:strict reference parser accepts every real git diff -U0 output",
                        not strict_errors and stats["git_errors"] == 0,
                        "; ".join(strict_errors[:3]) + (f" {stats['git_errors']} git errors" if stats["git_errors"] else "")))
    sc_by_id = {s["id"]: s for s in scen if "error" not in s}
    ids = [i for i in sc_by_id if i in docs]
    rust_real = C.run_cases(H, "c01-parse-bytes", [(i, C.sx(list(sc_by_id[i]["text"]))) for i in ids])
    model_real = C.run_cases(D, "c01-parse-bytes", [(i, C.sx(list(sc_by_id[i]["text"]))) for i in ids]) if model else {}
    rendered = C.run_cases(D, "c01-render", [(i, f"{sc_by_id[i]['qp']} {C.sx(doc_sx(docs[i]))}") for i in ids]) if model else {}
    samples = []
    sample_texts = []
    wf_false = []
    for i in ids:
        s, doc = sc_by_id[i], docs[i]
        stats["git_scenarios"] += 1
        stats["git_files"] += len(doc)
        stats["git_hunks"] += sum(len(f["hunks"]) for f in doc)
        stats["qp_false"] += 1 - s["qp"]
        if doc:
            distinct.add(("git", s["text"]))
        if len(sample_texts) < 200:
            sample_texts.append(s["text"].decode("utf-8", "replace"))
        exp_all, exp_ins = expected_maps(doc)
        # --- oracle (c)
        out = rust_real.get(i)
        ok = False
        detail = out
        if out and out.startswith("(ok"):
            x = C.sx_parse_many(out)[0]
            got_all = {k: v for k, v in map_of(x[1]).items() if v}
            got_ins = {k: v for k, v in map_of(x[2]).items() if v}
            utf8 = True
            want_all, want_ins = {}, {}
            for p, v in exp_all.items():
                try:
                    want_all[p.decode("utf-8")] = v
                except UnicodeDecodeError:
                    utf8 = False
            for p, v in exp_ins.items():
                try:
                    want_ins[p.decode("utf-8")] = v
                except UnicodeDecodeError:
                    utf8 = False
            if not utf8:
                stats["non_utf8_paths_skipped_in_oracle"] += 1
                ok = True
            else:
                ok = (got_all == want_all and got_ins == want_ins)
                if not ok:
                    detail = f"want {want_all} / {want_ins} got {got_all} / {got_ins}"
        if not ok:
            stats["oracle_fail"] += 1
            violations.append((f"added-line scanners disagree with git's hunks on {s['id']} (qp={s['qp']}): {str(detail)[:300]}",
                               {"kind": "c01fmt-oracle", "qp": s["qp"], "tree_a": {k.decode('latin-1'): v.decode('latin-1') for k, v in s["a"].items()},
                                "tree_b": {k.decode('latin-1'): v.decode('latin-1') for k, v in s["b"].items()},
                                "git_diff_latin1": s["text"].decode("latin-1"), "rust": out, "detail": str(detail)[:1000]}))
        # --- correspondence on real output
        if model:
            mo = model_real.get(i)
            if mo != out:
                mismatches.append((i, f"parse-bytes on real git output {s['id']}: impl {str(out)[:100]} model {str(mo)[:100]}"))
            ro = rendered.get(i)
            if ro is None or not ro.startswith("(text"):
                mismatches.append((i, f"render failed: {str(ro)[:100]}"))
            else:
                xs = C.sx_parse_many(ro)
                dd = {x[0]: x for x in xs}
                if bytes(dd["text"][1]) != s["text"]:
                    stats["render_mismatch"] += 1
                    a, b = bytes(dd["text"][1]), s["text"]
                    k = next((j for j in range(min(len(a), len(b))) if a[j] != b[j]), min(len(a), len(b)))
                    mismatches.append((i, f"render differs from git (qp={s['qp']}) at byte {k}: model {a[max(0,k-40):k+40]!r} git {b[max(0,k-40):k+40]!r}"))
                wf = dd["wf"][1] == 1
                stats["wf_true_docs"] += wf
                if not wf:
                    wf_false.append(i)
                # theorem instance: wf, qp=true -> model parse = added_lines
                if wf and s["qp"] == 1:
                    stats["theorem_instances_checked"] += 1
                    ok_i = mo is not None and mo.startswith("(ok")
                    if ok_i:
                        mx = C.sx_parse_many(mo)[0]
                        ok_i = mx[1] == dd["added"][1] and mx[2] == dd["ins"][1]
                    if not ok_i:
                        mismatches.append((i, "theorem instance fails in the extracted model (parse <> added_lines)"))
            if len(samples) < 3 and len(doc) >= 2:
                samples.append({"case": "real git diff", "qp": s["qp"], "names": [n.decode("latin-1") for n in s["names"]],
                                "git_output_head": s["text"][:300].decode("latin-1"), "rust": str(out)[:300],
                                "expected_all": {k.decode("latin-1"): v for k, v in exp_all.items()}})
    if model:
        obligations.append(("monitor:wf_doc holds for every document extracted from real git output", not wf_false,
                            ", ".join(wf_false[:5])))

    timing["git"] = round(time.time() - T0, 1)
    # ---------------- (a1) synthetic documents: model render -> both parsers
    kinds_doc = {"wf": 0, "files": 0, "hunks": 0}
    if model:
        dcases = []
        for k in range(n_doc):
            d = gen_doc(r)
            qp = 0 if r.chance(1, 5) else 1
            dcases.append((f"d{k}", qp, d))
        rr = C.run_cases(D, "c01-render", [(i, f"{qp} {C.sx(doc_sx(d))}") for i, qp, d in dcases])
        tcases = []
        for i, qp, d in dcases:
            ro = rr.get(i)
            if ro is None or not ro.startswith("(text"):
                mismatches.append((i, f"render failed on synthetic doc: {str(ro)[:100]}"))
                continue
            dd = {x[0]: x for x in C.sx_parse_many(ro)}
            text = bytes(dd["text"][1])
            kinds_doc["wf"] += dd["wf"][1]
            kinds_doc["files"] += len(d)
            kinds_doc["hunks"] += sum(len(f["hunks"]) for f in d)
            if not safe_text(text.decode("latin-1")):
                continue
            tcases.append((i, text, dd, qp))
            if d:
                distinct.add(("doc", text))
        a = C.run_cases(H, "c01-parse-bytes", [(i, C.sx(list(t))) for i, t, _, _ in tcases])
        b = C.run_cases(D, "c01-parse-bytes", [(i, C.sx(list(t))) for i, t, _, _ in tcases])
        for i, t, dd, qp in tcases:
            if a.get(i) != b.get(i):
                mismatches.append((i, f"parse-bytes on rendered doc: impl {str(a.get(i))[:100]} model {str(b.get(i))[:100]} text {t[:120]!r}"))
            elif dd["wf"][1] == 1 and qp == 1:
                stats["theorem_instances_checked"] += 1
                mo = b.get(i)
                ok = mo and mo.startswith("(ok")
                if ok:
                    mx = C.sx_parse_many(mo)[0]
                    ok = mx[1] == dd["added"][1] and mx[2] == dd["ins"][1]
                if not ok:
                    mismatches.append((i, f"theorem instance fails in the extracted model on synthetic doc: {str(mo)[:100]}"))

    timing["docs"] = round(time.time() - T0, 1)
    # ---------------- (a2) arbitrary text
    tk = {}
    tcs = []
    for k in range(n_txt):
        kind, t = gen_text(r, sample_texts)
        if not safe_text(t):
            continue
        tk[kind] = tk.get(kind, 0) + 1
        tcs.append((f"t{k}", t))
    tcs.append(("tcorpus0", "+++ b/f\n@@ -1,0 +2 @@\n+++ weird\n@@ -5,0 +7 @@\n+x\n"))
    tcs.append(("tcorpus1", "+++ \"\n"))
    tin = [(i, C.sx(C.cps(t))) for i, t in tcs]
    outcome = {}
    for mode in ("c01-parse", "c01-parse-ins"):
        a = C.run_cases(H, mode, tin)
        b = C.run_cases(D, mode, tin) if model else {}
        for i, t in tcs:
            x = a.get(i)
            if x is None:
                mismatches.append((i, f"harness died on {t!r}"))
                continue
            o = x.split(" ")[0].strip("()")
            outcome[o] = outcome.get(o, 0) + 1
            if x != "(ok ())" and x != "(ok () ())":
                distinct.add(("text", t))
            if model and x != b.get(i):
                mismatches.append((i, f"{mode} on {t!r}: impl {x[:100]} model {str(b.get(i))[:100]}"))

    timing["texts"] = round(time.time() - T0, 1)
    # ---------------- (a3) hunk headers
    hcs = [(f"hc{k}", l) for k, l in enumerate(CRAFT_LINES) if safe_text(l)]
    for k in range(n_hh):
        kind = r.weighted([(5, "valid"), (3, "near"), (4, "soup")])
        if kind == "valid":
            os_, oc, ns = r.below(5000), r.weighted([(3, 0), (3, 1), (3, r.below(400))]), r.pick([0, 1, 7, r.below(100000), 2 ** 31 - 2, 2 ** 32 - 2, 2 ** 32 - 1])
            nc = r.weighted([(3, 0), (3, 1), (3, r.range(2, 300)), (1, 2 ** 32 - 1), (1, 2 ** 32)])
            def rg(s, c):
                return f"{s}" if c == 1 and r.chance(9, 10) else f"{s},{c}"
            l = f"@@ -{rg(os_, oc)} +{rg(ns, nc)} @@" + r.pick(["", "", " fn x() {", " @@ -1 +1 @@", "\r"])
        elif kind == "near":
            l = r.pick(CRAFT_LINES)
            if l:
                i = r.below(len(l))
                l = l[:i] + r.pick(list(" @+-,019\t") + ["\u00a0", ""]) + l[i + r.below(2):]
        else:
            l = "".join(r.pick(list(" @+-,0123456789x\t") + ["@@", " @@ ", "\u2003"]) for _ in range(r.range(0, 18)))
        if safe_text(l):
            hcs.append((f"h{k}", l))
    hin = [(i, C.sx(C.cps(t))) for i, t in hcs]
    a = C.run_cases(H, "c01-hunk", hin)
    b = C.run_cases(D, "c01-hunk", hin) if model else {}
    hh_out = {}
    for i, t in hcs:
        x = a.get(i)
        o = (x or "died").split(" ")[0].strip("()")
        hh_out[o] = hh_out.get(o, 0) + 1
        if x != "none":
            distinct.add(("hh", t))
        if x is None or (model and x != b.get(i)):
            mismatches.append((i, f"c01-hunk on {t!r}: impl {str(x)[:80]} model {str(b.get(i))[:80]}"))

    timing["hunks"] = round(time.time() - T0, 1)
    # ---------------- (a4) paths: unescape / normalize / lossy / quote round trip
    pcs, bcs, qcs = [], [], []
    esc_alpha = list('\\"ntrabfvx0123456789/ ') + ["\u00e9", "\\\\", '\\"', "\\30", "\\303\\251", "b/", "a/", "\t", "\u00a0"]
    for k in range(n_path):
        kind = r.weighted([(4, "quoted"), (2, "plain"), (2, "craft")])
        if kind == "quoted":
            body = "".join(r.pick(esc_alpha) for _ in range(r.range(0, 10)))
            t = r.pick(['"', '"', '"', '']) + body + r.pick(['"', '"', '"', '', '" ', '"\t'])
        elif kind == "plain":
            t = r.pick(["b/", "a/", "c/", "w/", "i/", "o/", "x/", ""]) + "".join(r.pick(list("ab/ \"\\") + ["\u00e9", "\u3000"]) for _ in range(r.range(0, 6))) + r.pick(["", " ", "\t", "\u00a0"])
        else:
            t = r.pick(CRAFT_LINES)[4:]
        pcs.append((f"p{k}", t))
        bs = bytes(r.pick([0x41, 0x7f, 0x80, 0xbf, 0xc0, 0xc2, 0xc3, 0xa9, 0xe0, 0xa0, 0xe2, 0x82, 0xac, 0xed, 0x9f, 0xf0, 0x90, 0x9f, 0x98, 0x80,
                           0xf4, 0x8f, 0x90, 0xf5, 0xff, 0x0a, 0x20]) for _ in range(r.range(0, 8)))
        bcs.append((f"b{k}", bs))
        nm = r.pick(NAME_POOL) if r.chance(1, 2) else bytes(r.pick([7, 8, 9, 10, 11, 12, 13, 27, 32, 34, 92, 48, 55, 56, 97, 110, 127, 0xc3, 0xa9, 0xff, 47]) for _ in range(r.range(1, 6)))
        qcs.append((f"q{k}", r.below(2), nm))
    pin = [(i, C.sx(C.cps(t))) for i, t in pcs]
    for mode in ("c01-unescape", "c01-normalize"):
        a = C.run_cases(H, mode, pin)
        b = C.run_cases(D, mode, pin) if model else {}
        for i, t in pcs:
            if t.startswith('"'):
                distinct.add(("path", t))
            if a.get(i) is None or (model and a.get(i) != b.get(i)):
                mismatches.append((i, f"{mode} on {t!r}: impl {str(a.get(i))[:80]} model {str(b.get(i))[:80]}"))
    bin_ = [(i, C.sx(list(t))) for i, t in bcs]
    a = C.run_cases(H, "c01-lossy", bin_)
    b = C.run_cases(D, "c01-lossy", bin_) if model else {}
    for i, t in bcs:
        if a.get(i) is None or (model and a.get(i) != b.get(i)):
            mismatches.append((i, f"from_utf8_lossy on {t!r}: impl {str(a.get(i))[:80]} model {str(b.get(i))[:80]}"))
    # quote (model = git's quote_c_style, validated by the render comparison) then the REAL unescape: oracle of C01_fmt_unescape_quote
    n_q_ok = 0
    if model:
        qo = C.run_cases(D, "c01-quote", [(i, f"{qp} {C.sx(list(nm))}") for i, qp, nm in qcs])
        uin = []
        for i, qp, nm in qcs:
            dd = {x[0]: x for x in C.sx_parse_many(qo[i])}
            uin.append((i, C.sx(C.cps(bytes(dd["q"][1]).decode("utf-8", "replace") if qp == 0 else bytes(dd["q"][1]).decode("latin-1")))))
        ua = C.run_cases(H, "c01-unescape", uin)
        for i, qp, nm in qcs:
            want = nm.decode("utf-8", "replace")
            got = ua.get(i)
            good = got is not None and got.startswith("(ok") and C.uncps(C.sx_parse_many(got)[0][1]) == want
            if good:
                n_q_ok += 1
            else:
                try:
                    nm.decode("utf-8")
                    valid = True
                except UnicodeDecodeError:
                    valid = False
                if qp == 1 or valid:
                    violations.append((f"unescape_git_path(quote_c_style({nm!r}, quotePath={qp})) = {str(got)[:100]}",
                                       {"kind": "c01fmt-unescape", "path_latin1": nm.decode("latin-1"), "qp": qp, "rust": got}))

    timing["paths"] = round(time.time() - T0, 1)
    ok_corr = not mismatches
    obligations.append(("tie:correspondence Model/DiffFmt.v vs Rust diff scanners + render vs real git", ok_corr and model,
                        "; ".join(m[1] for m in mismatches[:3]) if mismatches else ("" if model else "model did not build")))
    evaluations = len(ids) + n_doc + 2 * len(tcs) + len(hcs) + 2 * len(pcs) + len(bcs) + len(qcs)
    return {
        "obligations": obligations,
        "violations": violations,
        "known_seen": sorted(known_seen),
        "searched": f"{len(ids)} real git diff -U0 outputs ({stats['git_files']} files, {stats['git_hunks']} hunks; oracle = strict "
                    f"count-based parse), {n_doc} synthetic documents, {len(tcs)} arbitrary texts, {len(hcs)} hunk-header lines, "
                    f"{len(pcs)} path tokens; {len(mismatches)} model/impl mismatches: " + "; ".join(m[1] for m in mismatches[:5]),
        "coverage": {
            "evaluations": evaluations,
            "distinct_nontrivial": len(distinct),
            "rule": "real git outputs with at least one file section; rendered synthetic documents with at least one file; "
                    "texts on which a scanner returns a non-empty map or panics; header lines not answered None; quoted path tokens; "
                    "distinct by input",
            "samples": samples,
            "input_distribution": {"text_kinds": tk, "scanner_outcomes": outcome, "hunk_header_outcomes": hh_out,
                                   "synthetic_docs": kinds_doc, "git": stats,
                                   "quote_unescape_roundtrip": {"ok": n_q_ok, "of": len(qcs)}},
            "correspondence_mismatches": len(mismatches),
            "cumulative_seconds": timing,
        },
    }
INTEGRATED = True   # set by the lead: the slice is finished and accepted
