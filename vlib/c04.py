"""C04 — uncommitted AI work is carried to the commit that finally contains it, once
(the split at commit time: one file, one commit; then the carry to the next commit).

Tie: (C1) in-process: Model/Split.v `split_file` (extracted) vs the real
          VirtualAttributions::to_authorship_log_and_initial_working_log on real scratch repositories
          (P = parent, C = commit, W = work tree of pairwise distinct lines), the model being fed the hunks
          that the real `git diff -U0` reports; for inputs in the spec domain (wf3) the spec-level
          derivation committed/unstaged/hunks_of must equal git's hunks (monitor).
          No /repo hook is needed (the method and the constructor are public).
     (C2) LineRange::compress_lines/expand and VirtualAttributions::to_authorship_log vs the model.
     (C3) system level: the real binary driven through checkpoints, partial staging, unstaged edits and
          `git commit`; note + INITIAL vs the model's prediction from P, C, W and the ground truth.
     (C3b) carry family: AI work on 2-3 files (tracked and new untracked) split over 2-4 commits by file
          and by hunk with unrelated human commits / edits / checkpoints (sometimes an AI checkpoint) in between.
     (T)  Gen/GenSplit.v regenerated from post_commit.rs / virtual_attribution.rs: the loop that adds the
          files named by INITIAL to the post-commit pathspecs is unconditional (C04_carry depends on it).
Oracle (independent of the model): by construction every line has an id and an author; after the
commit every AI line of C that the commit added must be in the note at its position in C for its
session, every AI line of W that is not in C must be in INITIAL at its position in W for its session,
nothing else may be listed; after a second commit of the rest, that commit's note must list exactly
the carried lines; in the carry family every commit's note must list exactly the AI lines that this
commit is the first to contain (so every AI line is in exactly one note, none twice, none lost).
"""
import json
import os
import re
import shutil
import subprocess

from . import common as C
from .gitsim import Sim, session_hash

GEN_FILES = ["GenSplit"]
DRIVERS = ["split"]
THEOREMS = ["C04_expand_compress", "C04_compress_wf", "C04_split_no_panic", "C04_split_exact",
            "C04_translation_exact", "C04_split_exact_decidable", "C04_unkept_line_unrecorded",
            "C04_carry", "C04_carry_precommit_runs", "C04_carry_needs_pathspec",
            "C04_deletion_fixed", "C04_modify_fixed", "C04_hidden_refuted",
            "C04_nonvacuous", "C04_nonvacuous_edits_above"]
CLAIM = {
    "text": "Machine-checked proof (Coq 8.16.1) over an executable Gallina model of the per-file body of "
            "to_authorship_log_and_initial_working_log with the repaired work-tree -> commit line translation "
            "(hunk extents of git diff -U0): the translation of every kept line is its true position in the commit "
            "whatever is inserted, deleted or rewritten above it, and under the boolean side condition no_hidden "
            "(no unstaged line takes the place of a line this commit added) every AI-claimed work-tree line is "
            "recorded exactly once - in the note at its commit position if the commit added it, in INITIAL at its "
            "work-tree position if the commit left it out, nowhere if it pre-existed - and nothing else is recorded; "
            "the statement without the side condition is proved false (one witness, deliberate behaviour) and the "
            "excluded inputs are listed known findings; the former witnesses K1/K2 are positive regression theorems.",
    "design_ref": "DESIGN.md §4 C04",
    "note": "Covers the split of one commit and (by test only) the carry to the next commit; sequences of "
            "commits (C04_once) are not proved here; C04_carry proves the per-file carry step (pathspec union + "
            "unchanged claims) and the multi-commit behaviour is tested by the carry family.",
    "technique": "Coq proof over extracted model + differential correspondence in-process and at system level",
}
TRUSTED_BASE = [
    "Coq 8.16.1 kernel (coqc); no axioms (Print Assumptions: closed under the global context)",
    "tools/gen/GenSplit.py (pattern extraction of the INITIAL->pathspecs loop of post_commit and of the "
    "untracked-file branch of collect_unstaged_hunks)",
    "extraction: ExtrOcamlBasic only (no Extract Constant); OCaml 4.13.1; coq/Extract/d_split.ml",
    "harness/src/p_c04.rs + vlib/c04.py + vlib/gitsim.py (scenario generation, canonicalisation, oracle)",
    "modelled, not verified: git's diff (hunks of `git diff -U0` for files of pairwise distinct lines are "
    "the maximal runs of lines absent from the other side - monitored against real git on every case); "
    "HashMap iteration order (canonicalised by sorting on both sides)",
]
ASSUMPTIONS = [
    "line ids are pairwise distinct inside each version and edits do not move lines (wf3), so that the "
    "minimal diff is unique",
    "the attributions handed to the split claim each existing work-tree line for at most one author (attrs_wf)",
]

TOOL = "toolx"
PATH = "f.txt"
# C04-K1 (unstaged deletion above staged AI lines) and C04-K2 (unstaged modification of a pre-existing line
# above staged AI lines) are FIXED: their witnesses are regression scenarios of the corpus and excuse nothing.
K3 = "C04-K3 unstaged rewrite of a just-committed line is credited to the commit (hidden by the committed/unstaged filter)"
K4 = "C04-K4 staged AI line deleted or rewritten in the work tree before the commit is recorded for nobody"


def txt(ids):
    return "".join(f"line {x}\n" for x in ids)


# ------------------------------------------------------------------ independent helpers
def git_hunks(a_ids, b_ids, d, tag):
    """added / pure-insertion line numbers of `git diff -U0` between two versions (real git)."""
    pa, pb = os.path.join(d, f"{tag}.a"), os.path.join(d, f"{tag}.b")
    with open(pa, "w") as f:
        f.write(txt(a_ids))
    with open(pb, "w") as f:
        f.write(txt(b_ids))
    out = subprocess.run(["/usr/bin/git", "diff", "--no-index", "-U0", "--no-color", pa, pb],
                         stdout=subprocess.PIPE, text=True,
                         env={"PATH": "/usr/bin:/bin", "HOME": d, "GIT_CONFIG_NOSYSTEM": "1"}).stdout
    added, pure, hunks = [], [], []
    for l in out.splitlines():
        m = re.match(r"^@@ -(\d+)(?:,(\d+))? \+(\d+)(?:,(\d+))? @@", l)
        if m:
            oc = int(m.group(2)) if m.group(2) is not None else 1
            ns = int(m.group(3))
            nc = int(m.group(4)) if m.group(4) is not None else 1
            ls = list(range(ns, ns + nc))
            added += ls
            if oc == 0:
                pure += ls
            hunks.append((int(m.group(1)), oc, ns, nc))
    return added, pure, hunks


def same_order(a, b):
    sb, sa = set(b), set(a)
    return [x for x in a if x in sb] == [x for x in b if x in sa]


def wf3(p, c, w):
    return all(len(set(v)) == len(v) for v in (p, c, w)) and same_order(p, c) and same_order(c, w)


def rand_edit(r, a, fresh, nmax=3):
    b = list(a)
    for _ in range(r.range(0, nmax)):
        k = r.weighted([(5, "ins"), (2, "del"), (2, "rep")])
        if k == "ins" or not b:
            p = r.range(0, len(b))
            b[p:p] = [fresh() for _ in range(r.range(1, 3))]
        elif k == "del":
            p = r.below(len(b))
            del b[p:p + r.range(1, 2)]
        else:
            p = r.below(len(b))
            b[p:p + r.range(1, 2)] = [fresh() for _ in range(r.range(1, 3))]
    return b


def parse_out(s):
    """(note ...) (init ...) -> ({author: set(lines)}, {author: set(lines)}) or the raw word"""
    if not s or not s.startswith("("):
        return s
    xs = C.sx_parse_many(s)
    d = {x[0]: x[1:] for x in xs if isinstance(x, list) and x and isinstance(x[0], str)}
    note, ini = {}, {}
    for e in d.get("note", []):
        a = C.uncps(e[0])
        for rg in e[1:]:
            lo, hi = (rg[1], rg[1]) if rg[0] == "s" else (rg[1], rg[2])
            note.setdefault(a, []).extend(range(lo, hi + 1))
    for e in d.get("init", []):
        ini.setdefault(C.uncps(e[0]), []).extend(range(e[1], e[2] + 1))
    return note, ini


def fields(s):
    xs = C.sx_parse_many(s)
    return {x[0]: x[1:] for x in xs if isinstance(x, list) and x and isinstance(x[0], str)}


# ------------------------------------------------------------------ C1: in-process cases
def gen_case(r):
    ctr = [100]

    def fresh():
        ctr[0] += 1
        return ctr[0]
    p = list(range(1, r.range(0, 6) + 1))
    c = rand_edit(r, p, fresh)
    w = rand_edit(r, c, fresh)
    kind = "edits"
    if r.chance(1, 8) and len(w) >= 2:          # a moved line: outside the spec domain, still a tie case
        i = r.below(len(w))
        x = w.pop(i)
        w.insert(r.range(0, len(w)), x)
        kind = "moved"
    if r.chance(1, 10):
        gone = [x for x in p if x not in c and x not in w]
        if gone:                                  # a parent line dropped by the commit, still in W
            w.insert(r.range(0, len(w)), r.pick(gone))
            kind = "readded"
    attrs, pos = [], 1
    style = r.weighted([(6, "tiling"), (2, "all"), (2, "messy")])
    if style == "all":
        attrs = [(i, i, "s%d" % (x % 3)) for i, x in enumerate(w, 1)]
    elif style == "tiling":
        while pos <= len(w):
            ln = r.range(1, 3)
            if r.chance(3, 5):
                attrs.append((pos, min(pos + ln - 1, len(w)), r.weighted([(4, "s1"), (3, "s2"), (2, "human")])))
            pos += ln
    else:
        for _ in range(r.range(0, 4)):
            a = r.range(0, len(w) + 2)
            b = max(0, a + r.range(0, 3) - 1)
            attrs.append((a, b, r.pick(["s1", "s2", "human", "s1"])))
    return p, c, w, attrs, kind + "/" + style


def inprocess_case_hunks(args):
    d, i, p, c, w = args
    k, _, _ = git_hunks(p, c, d, f"pc{i}")
    u, pu, hk = git_hunks(c, w, d, f"cw{i}")
    return k, u, pu, hk


# ------------------------------------------------------------------ C3: system-level scenarios
def hunks_between(a, b):
    """[(a_start, a_len, b_start, b_len)] 0-based, for order-preserving versions of distinct ids"""
    sb, sa = set(b), set(a)
    i = j = 0
    out = []
    while i < len(a) or j < len(b):
        i0, j0 = i, j
        while i < len(a) and a[i] not in sb:
            i += 1
        while j < len(b) and b[j] not in sa:
            j += 1
        if i > i0 or j > j0:
            out.append((i0, i - i0, j0, j - j0))
        if i < len(a) and j < len(b):
            i += 1
            j += 1
    return out


def corpus_scenarios():
    """fixed witnesses: (name, P, sessions [(session, content_after)], C, later [(actor, content_after)])"""
    return [
        ("nonvacuous", [1, 2, 3], [("s1", [1, 12, 2, 10, 11, 14, 3, 13])], [1, 2, 10, 14, 3], []),
        ("K1-regression-min", [1], [("s1", [1, 2])], [1, 2], [("H", [2])]),
        ("K2-regression-min", [1], [("s1", [1, 2])], [1, 2], [("H", [3, 2])]),
        ("K3-min", [1], [("s1", [1, 2])], [1, 2], [("s2", [1, 3])]),
        ("K4-min", [1], [("s1", [1, 2, 3])], [1, 2, 3], [("H", [1, 2])]),
        ("K1-regression-design", [1, 2, 3], [("s1", [1, 2, 10, 11, 3])], [1, 2, 10, 11, 3], [("H", [2, 10, 11, 3])]),
        ("K2-regression-design", [1, 2, 3], [("s1", [1, 2, 10, 11, 3])], [1, 2, 10, 11, 3], [("H", [20, 2, 10, 11, 3])]),
        ("tail-replace-ok", [1, 2], [("s1", [11, 1, 10, 2])], [1, 10, 2], [("s1", [11, 1, 10, 12])]),
        ("edits-above-regression", [1, 2, 4, 3], [("s1", [1, 2, 4, 21, 10, 11, 3])], [1, 2, 4, 10, 11, 3],
         [("H", [20, 4, 21, 10, 11, 22])]),
    ]


def gen_scenario(r):
    ctr = [100]

    def fresh():
        ctr[0] += 1
        return ctr[0]
    p = list(range(1, r.range(2, 7) + 1))
    cur = list(p)
    sessions = []
    for k in range(r.weighted([(6, 1), (4, 2)])):
        s = "s%d" % (k + 1)
        for _ in range(r.range(1, 2)):
            if r.chance(1, 6) and cur:
                q = r.below(len(cur))
                cur[q:q + 1] = [fresh() for _ in range(r.range(1, 2))]
            else:
                q = r.range(0, len(cur))
                cur[q:q] = [fresh() for _ in range(r.range(1, 3))]
        sessions.append((s, list(cur)))
        if r.chance(1, 5):
            q = r.range(0, len(cur))
            cur[q:q] = [fresh()]
            sessions.append(("H", list(cur)))
    m = list(cur)
    hs = hunks_between(p, m)
    pick = [r.chance(3, 5) for _ in hs]
    if not any(pick):
        pick[r.below(len(pick))] = True
    c, last = [], 0
    for (a0, al, b0, bl), take in zip(hs, pick):
        c += p[last:a0]
        c += m[b0:b0 + bl] if take else p[a0:a0 + al]
        last = a0 + al
    c += p[last:]
    later = []
    for _ in range(r.weighted([(5, 0), (4, 1), (2, 2)])):
        actor = r.weighted([(6, "H"), (2, "s1"), (2, "s9")])
        op = r.weighted([(4, "ins"), (2, "del"), (3, "mod")])
        where = r.weighted([(3, "top"), (3, "any"), (2, "bottom")])
        n = len(cur)
        if op == "ins" or n == 0:
            q = 0 if where == "top" else (n if where == "bottom" else r.range(0, n))
            cur[q:q] = [fresh() for _ in range(r.range(1, 2))]
        else:
            q = 0 if where == "top" else (n - 1 if where == "bottom" else r.below(n))
            if op == "del":
                del cur[q]
                actor = "H"
            else:
                cur[q] = fresh()
        later.append((actor, list(cur)))
    return ("gen", p, sessions, c, later)


def run_scenario(args):
    base, idx, sc = args
    name, p, sessions, c, later = sc
    sim = Sim(base, f"s{idx}")
    author = {x: "H" for x in p}
    try:
        sim.init({PATH: txt(p)})
        cur = list(p)
        for s, content in sessions:
            if s != "H":
                sim.checkpoint_human([PATH])
            for x in content:
                author.setdefault(x, s)
            sim.write(PATH, txt(content))
            if s != "H":
                sim.checkpoint_ai(s, [PATH], tool=TOOL)
            cur = content
        m = list(cur)
        sim.write(PATH, txt(c))
        sim.realgit("add", PATH)
        sim.write(PATH, txt(m))
        for s, content in later:
            if s != "H":
                sim.checkpoint_human([PATH])
            for x in content:
                author.setdefault(x, s)
            sim.write(PATH, txt(content))
            if s != "H":
                sim.checkpoint_ai(s, [PATH], tool=TOOL)
            cur = content
        w = list(cur)
        rc, out, err = sim.git("commit", "-q", "-m", "first")
        if rc != 0:
            return {"idx": idx, "name": name, "skip": "commit failed: " + err[-200:]}
        head = sim.head()
        note = sim.note(head)
        got_note = {}
        if note is not None:
            for f, hs in note["files"].items():
                if f != PATH:
                    got_note.setdefault("?file:" + f, set())
                for h, ls in hs.items():
                    got_note.setdefault(h, set()).update(ls)
        ip = os.path.join(sim.repo, ".git", "ai", "working_logs", head, "INITIAL")
        got_init = {}
        if os.path.exists(ip):
            with open(ip) as f:
                obj = json.load(f)
            for f_, las in obj.get("files", {}).items():
                for la in las:
                    got_init.setdefault(la["author_id"], set()).update(range(la["start_line"], la["end_line"] + 1))
        committed_text = sim.file_at(head, PATH)
        # second commit: everything that is left
        sim.realgit("add", "-A")
        rc2, _, err2 = sim.git("commit", "-q", "-m", "second")
        got_note2 = None
        if rc2 == 0:
            h2 = sim.head()
            n2 = sim.note(h2)
            got_note2 = {}
            if n2 is not None:
                for f, hs in n2["files"].items():
                    for h, ls in hs.items():
                        got_note2.setdefault(h, set()).update(ls)
        return {"idx": idx, "name": name, "P": p, "C": c, "W": w, "author": {str(k): v for k, v in author.items()},
                "committed_text_ok": committed_text == txt(c),
                "note": {h: sorted(s) for h, s in got_note.items()},
                "init": {h: sorted(s) for h, s in got_init.items()},
                "note2": None if got_note2 is None else {h: sorted(s) for h, s in got_note2.items()},
                "sessions": sessions, "later": later, "log": sim.log}
    finally:
        shutil.rmtree(sim.base, ignore_errors=True)


def expected_sets(p, c, w, author):
    """ground truth: note (C coordinates), INITIAL (W coordinates), second note (W coordinates)"""
    sp, sc_ = set(p), set(c)
    en, ei = {}, {}
    for i, x in enumerate(c, 1):
        a = author[x]
        if a != "H" and x not in sp:
            en.setdefault(session_hash(TOOL, a), set()).add(i)
    for i, x in enumerate(w, 1):
        a = author[x]
        if a != "H" and x not in sc_:
            ei.setdefault(session_hash(TOOL, a), set()).add(i)
    return en, ei


def classify_known(p, c, w, author, nohidden):
    """open known classes (decidable predicates on the input) that apply to this scenario"""
    out = set()
    sp, sw = set(p), set(w)
    if any(author[x] != "H" and x not in sp and x not in sw for x in c):
        out.add(K4)
    if not nohidden:
        out.add(K3)
    return out


def py_no_hidden(p, c, w):
    """independent reading of no_hidden (used when the model is unavailable)"""
    sp, sw = set(p), set(w)
    for a0, al, b0, bl in hunks_between(c, w):
        for j in range(min(al, bl)):
            if c[a0 + j] not in sp:
                return False
    return True


# ------------------------------------------------------------------ C3b: carry across commits
BASE_FILES = ["README", "t1.txt", "t2.txt", "h.txt"]
NEW_FILES = ["n1.txt", "sub/n2.txt"]


def corpus_carry():
    """the three-commit split by file: new untracked AI file left out, unrelated human commit, then added"""
    base = {"README": [1], "t1.txt": [11, 12], "h.txt": [31]}
    final = {"t1.txt": [11, 12, 101, 102], "n1.txt": [103, 104, 105]}
    author = {101: "s1", 102: "s1", 103: "s1", 104: "s1", 105: "s1"}
    return {"name": "carry-demo", "base": base, "ai": [("s1", "t1.txt", final["t1.txt"]), ("s1", "n1.txt", final["n1.txt"])],
            "final": final, "author": author,
            "steps": [{"kind": "commit", "stage": {"t1.txt": final["t1.txt"]}},
                      {"kind": "hcommit", "id": 900},
                      {"kind": "commit", "stage": {"n1.txt": final["n1.txt"]}}]}


def gen_carry(r):
    ctr = [100]

    def fresh():
        ctr[0] += 1
        return ctr[0]
    base = {"README": [1, 2], "h.txt": [31, 32]}
    nid = 10
    tracked = ["t1.txt"] + (["t2.txt"] if r.chance(1, 2) else [])
    for f in tracked:
        base[f] = list(range(nid, nid + r.range(2, 5)))
        nid += 10
    news = r.shuffle(list(NEW_FILES))[:r.weighted([(5, 1), (3, 2)])]
    files = r.shuffle(tracked + news)[:r.range(2, 3)]
    if not any(f in NEW_FILES for f in files) and r.chance(2, 3):
        files[0] = news[0]
    author, final, ai, units = {}, {}, [], []
    sessions = ["s1"] if r.chance(3, 5) else ["s1", "s2"]
    for f in files:
        cur = list(base.get(f, []))
        for s in (sessions if r.chance(1, 3) else [r.pick(sessions)]):
            for _ in range(r.range(1, 2)):
                q = r.range(0, len(cur))
                new = [fresh() for _ in range(r.range(1, 3))]
                for x in new:
                    author[x] = s
                cur[q:q] = new
            ai.append((s, f, list(cur)))
        final[f] = cur
        pf = set(base.get(f, []))
        run = []
        for x in cur + [None]:
            if x is not None and x not in pf:
                run.append(x)
                # a new file is one hunk for git; split it into chunks to get a by-hunk partition
                if f in NEW_FILES and len(run) >= 2 and r.chance(1, 3):
                    units.append((f, run))
                    run = []
            elif run:
                units.append((f, run))
                run = []
    n = min(r.range(2, 4), len(units))
    order = r.shuffle(list(range(len(units))))
    group = {}
    for g, u in enumerate(order[:n]):
        group[u] = g + 1
    for u in order[n:]:
        group[u] = r.range(1, n)
    gid = {}
    for u, (f, run) in enumerate(units):
        for x in run:
            gid[x] = group[u]
    ai_between = r.chance(2, 5)
    steps, hid = [], [900]
    for k in range(1, n + 1):
        stage = {}
        for f in files:
            pf = set(base.get(f, []))
            content = [x for x in final[f] if x in pf or gid[x] <= k]
            had = [x for x in final[f] if x in pf or gid[x] <= k - 1]
            if content != had:
                stage[f] = content
        steps.append({"kind": "commit", "stage": stage})
        if k < n:
            for _ in range(r.weighted([(3, 0), (4, 1), (2, 2)])):
                ev = r.weighted([(6, "hcommit"), (2, "hedit"), (2, "hcp")] + ([(4, "aicommit")] if ai_between else []))
                hid[0] += 1
                steps.append({"kind": ev, "id": hid[0], "cp_all": r.chance(1, 2)})
    return {"name": "carry", "base": base, "ai": ai, "final": final, "author": author, "steps": steps}


def corpus_carry_edit():
    """seed-shaped: partial commit by hunk, a human checkpoint of the file (a pre-edit hook with no agent
    edit after it), then a person inserts three lines above the carried lines, then the file is committed"""
    f = "f.txt"
    base = {f: list(range(1, 11)), "README": [91]}
    m = [101, 102] + list(range(1, 11)) + [103, 104]
    c1 = [101, 102] + list(range(1, 11))
    w2 = [101, 102] + list(range(1, 7)) + [201, 202, 203] + list(range(7, 11)) + [103, 104]
    author = {101: "s1", 102: "s1", 103: "s1", 104: "s1", 201: "H", 202: "H", 203: "H"}
    return {"name": "carry-edit-demo", "base": base, "ai": [("s1", f, m)], "final": {f: w2}, "author": author,
            "steps": [{"kind": "commit", "stage": {f: c1}}, {"kind": "hcp_f", "paths": [f]},
                      {"kind": "write", "file": f, "content": w2}, {"kind": "commit", "stage": {f: w2}}]}


def gen_carry_edit(r):
    """one file f with AI lines of s1 committed by hunk; between the partial commit and the commit of the rest:
    human checkpoints of f (with / without an agent edit after them), un-checkpointed edits by a person that
    shift / do not shift the carried lines, agent edits of another file.  A person's shifting edit is only
    generated after a checkpoint of f on the new HEAD (the anchor of the positional INITIAL claims; without it
    the scenario would be in the known class C03-K2)."""
    ctr = [100]

    def fresh(a, author):
        ctr[0] += 1
        author[ctr[0]] = a
        return ctr[0]
    f, o = "f.txt", "o.txt"
    author = {}
    base = {f: list(range(1, r.range(4, 10) + 1)), o: [81, 82], "README": [91]}
    cur = list(base[f])
    runs = []
    for where in r.shuffle(["top", "mid", "bottom"])[:r.range(2, 3)]:
        q = 0 if where == "top" else (len(cur) if where == "bottom" else r.range(1, max(1, len(cur) - 1)))
        new = [fresh("s1", author) for _ in range(r.range(1, 3))]
        cur[q:q] = new
        runs.append(new)
    m = list(cur)
    left = r.below(len(runs))                     # at least this run is left out; at least one is staged
    staged = set()
    for k, run in enumerate(runs):
        if k != left and (r.chance(1, 2) or not staged):
            staged.update(run)
    if not staged:
        staged.update(runs[(left + 1) % len(runs)])
    bf = set(base[f])
    c1 = [x for x in m if x in bf or x in staged]
    steps = [{"kind": "commit", "stage": {f: c1}}]
    carried = [x for x in m if x not in bf and x not in staged]
    work_f, work_o = list(m), list(base[o])
    anchored = False
    for _ in range(r.range(1, 4)):
        ev = r.weighted([(4, "hcp_f"), (4, "shift"), (2, "noshift"), (2, "ai_other"), (2, "ai_f"), (1, "hcp_all")])
        if ev == "hcp_f":
            steps.append({"kind": "hcp_f", "paths": [f]})
            anchored = True
        elif ev == "hcp_all":
            steps.append({"kind": "hcp_f", "paths": None})
            anchored = True
        elif ev == "ai_other":
            work_o = work_o + [fresh("s2", author)]
            steps.append({"kind": "ai_edit", "session": "s2", "file": o, "content": list(work_o)})
        elif ev == "ai_f":
            q = r.range(0, len(work_f))
            work_f[q:q] = [fresh("s2", author) for _ in range(r.range(1, 2))]
            steps.append({"kind": "ai_edit", "session": "s2", "file": f, "content": list(work_f)})
            anchored = True
        elif ev == "shift":
            if not anchored:
                steps.append({"kind": "hcp_f", "paths": [f]})
                anchored = True
            first = min(work_f.index(x) for x in carried)
            q = r.range(0, first)
            work_f[q:q] = [fresh("H", author) for _ in range(r.range(1, 3))]
            steps.append({"kind": "write", "file": f, "content": list(work_f)})
        else:
            work_f = work_f + [fresh("H", author) for _ in range(r.range(1, 2))]
            steps.append({"kind": "write", "file": f, "content": list(work_f)})
    steps.append({"kind": "commit", "stage": {f: list(work_f)}})
    if work_o != base[o]:
        steps.append({"kind": "commit_all"})
    final = {f: list(work_f)}
    if work_o != base[o]:
        final[o] = list(work_o)
    return {"name": "carry-edit", "base": base, "ai": [("s1", f, m)], "final": final, "author": author, "steps": steps}



def note_by_file(note):
    out = {}
    if note is not None:
        for f, hs in note["files"].items():
            for h, ls in hs.items():
                if ls:
                    out.setdefault(f, {}).setdefault(h, set()).update(ls)
    return out


def run_carry(args):
    base, idx, sc = args
    sim = Sim(base, f"k{idx}")
    author = {int(k): v for k, v in sc["author"].items()}
    try:
        sim.init({f: txt(ids) for f, ids in sc["base"].items()})
        tree = {f: list(ids) for f, ids in sc["base"].items()}
        work = {f: list(ids) for f, ids in sc["base"].items()}
        for s, f, content in sc["ai"]:
            sim.checkpoint_human([f])
            sim.write(f, txt(content))
            sim.checkpoint_ai(s, [f], tool=TOOL)
            work[f] = list(content)
        commits = []
        for st in sc["steps"]:
            k = st["kind"]
            before = {f: list(v) for f, v in tree.items()}
            if k == "commit":
                for f, content in st["stage"].items():
                    sim.write(f, txt(content))
                    sim.realgit("add", f)
                    sim.write(f, txt(work[f]))
                    tree[f] = list(content)
            elif k == "commit_all":
                sim.realgit("add", "-A")
                for f in work:
                    tree[f] = list(work[f])
            elif k == "hcp_f":
                sim.checkpoint_human(st["paths"])
                continue
            elif k == "write":
                work[st["file"]] = list(st["content"])
                sim.write(st["file"], txt(st["content"]))
                continue
            elif k == "ai_edit":
                sim.checkpoint_human([st["file"]])
                work[st["file"]] = list(st["content"])
                sim.write(st["file"], txt(st["content"]))
                sim.checkpoint_ai(st["session"], [st["file"]], tool=TOOL)
                continue
            elif k == "hedit":
                work["h.txt"] = work["h.txt"] + [st["id"]]
                author[st["id"]] = "H"
                sim.write("h.txt", txt(work["h.txt"]))
                continue
            elif k == "hcp":
                sim.checkpoint_human(None if st.get("cp_all") else ["README"])
                continue
            else:
                who = "H" if k == "hcommit" else "s9"
                if who != "H":
                    sim.checkpoint_human(["README"])
                work["README"] = work["README"] + [st["id"]]
                author[st["id"]] = who
                sim.write("README", txt(work["README"]))
                if who != "H":
                    sim.checkpoint_ai(who, ["README"], tool=TOOL)
                sim.realgit("add", "README")
                tree["README"] = list(work["README"])
            rc, out, err = sim.git("commit", "-q", "-m", k)
            if rc != 0:
                return {"idx": idx, "name": sc["name"], "skip": f"commit failed at {k}: " + err[-200:]}
            head = sim.head()
            texts_ok = all(sim.file_at(head, f) == txt(ids) for f, ids in tree.items())
            commits.append({"kind": k, "before": before, "after": {f: list(v) for f, v in tree.items()},
                            "work": {f: list(v) for f, v in work.items()},
                            "note": {f: {h: sorted(s) for h, s in hs.items()} for f, hs in note_by_file(sim.note(head)).items()},
                            "texts_ok": texts_ok})
        return {"idx": idx, "name": sc["name"], "commits": commits, "final": {f: list(work[f]) for f in sc["final"]},
                "author": {str(k): v for k, v in author.items()}, "scenario": sc, "log": sim.log}
    finally:
        shutil.rmtree(sim.base, ignore_errors=True)


# ------------------------------------------------------------------ the check
def run(ctx):
    r = ctx.rng
    quick = ctx.tier == "quick"
    obligations, violations, known_seen = [], [], set()
    mism = []
    dist = {}
    distinct = set()
    samples = []

    # ---------- C2: compress / expand / to_authorship_log
    n_small = 600 if quick else 20000
    cc, lc = [], []
    for i in range(n_small):
        k = r.weighted([(5, "sorted"), (2, "dups"), (2, "unsorted")])
        ls = sorted(set(r.range(0, 40) for _ in range(r.range(0, 12))))
        if k == "dups":
            ls = sorted(ls + [r.pick(ls)]) if ls else ls
        elif k == "unsorted":
            ls = r.shuffle(ls)
        cc.append((f"k{i}", C.sx(ls)))
        at = []
        for _ in range(r.range(0, 6)):
            a = r.range(0, 30)
            at.append([a, max(0, a + r.range(0, 5) - (1 if r.chance(1, 8) else 0)), C.cps(r.pick(["s1", "s2", "human"]))])
        if r.chance(1, 30):
            at.append([4294967290, 4294967295, C.cps("s1")])
            at.append([4294967295, 4294967295, C.cps("s1")])
        lc.append((f"l{i}", C.sx(at)))
    scratch = os.path.join(ctx.scratch, "c04")
    home = os.path.join(scratch, "home")
    os.makedirs(home, exist_ok=True)
    with open(os.path.join(home, ".gitconfig"), "w") as f:
        f.write("[user]\n\tname = T\n\temail = t@example.com\n[init]\n\tdefaultBranch = main\n[commit]\n\tgpgsign = false\n")
    saved = {k: os.environ.get(k) for k in ("HOME", "GIT_CONFIG_NOSYSTEM", "GIT_CONFIG_GLOBAL", "VERIF_C04_SCRATCH")}
    os.environ.update({"HOME": home, "GIT_CONFIG_NOSYSTEM": "1", "GIT_CONFIG_GLOBAL": os.path.join(home, ".gitconfig"),
                       "VERIF_C04_SCRATCH": scratch})
    try:
        ic = C.run_cases(C.VHARNESS, "c04-compress", cc)
        il = C.run_cases(C.VHARNESS, "c04-log", lc, shards=4)
        if ctx.model_ok:
            mc = C.run_cases(C.driver_path("split"), "c04-compress", cc)
            ml = C.run_cases(C.driver_path("split"), "c04-log", lc)
            bad = [(i, ic.get(i), mc.get(i)) for i, _ in cc if ic.get(i) != mc.get(i)]
            bad += [(i, il.get(i), ml.get(i)) for i, _ in lc if il.get(i) != ml.get(i)]
            obligations.append(("tie:correspondence compress_lines/expand/to_authorship_log", not bad,
                                "; ".join(f"{i}: impl {a} model {b}" for i, a, b in bad[:3])))
        # oracle for compress: expand gives the input back
        for i, b in cc:
            out = ic.get(i, "")
            if out == "panic" or not out:
                violations.append((f"compress_lines panicked on {b}", {"kind": "compress", "lines": b}))
                continue
            xs = C.sx_parse_many(out)
            if xs[1] != C.sx_parse_many(b)[0]:
                violations.append((f"expand(compress_lines l) != l for {b}", {"kind": "compress", "lines": b, "impl": out}))

        # ---------- C1: in-process split on real repositories
        n_ip = 1200 if quick else 40000
        cases = []
        for i in range(n_ip):
            p, c, w, attrs, kind = gen_case(r)
            dist[kind] = dist.get(kind, 0) + 1
            cases.append((f"c{i}", p, c, w, attrs))
        hunks = C.parallel_map(inprocess_case_hunks, [(scratch, i, p, c, w) for i, p, c, w, _ in cases])
        body = {i: " ".join(C.sx(x) for x in [p, c, w, [[a, b, C.cps(au)] for a, b, au in attrs]])
                for i, p, c, w, attrs in cases}
        impl = C.run_cases(C.VHARNESS, "c04-split", [(i, body[i]) for i, *_ in cases], shards=C.NCPU)
        spec = C.run_cases(C.driver_path("split"), "c04-spec", [(i, body[i]) for i, *_ in cases]) if ctx.model_ok else {}
        split_in = []
        for (i, p, c, w, attrs), hk in zip(cases, hunks):
            if isinstance(hk, dict):
                violations.append(("engine error (git diff)", hk))
                continue
            k, u, pu, hh = hk
            split_in.append((i, " ".join(C.sx(x) for x in [[[a, b, C.cps(au)] for a, b, au in attrs], k, u,
                                                            [[oc, ns, nc] for _, oc, ns, nc in hh]])))
        model = C.run_cases(C.driver_path("split"), "c04-split", split_in) if ctx.model_ok else {}
        n_wf = n_sc = n_sc_fail = n_derive_bad = 0
        for (i, p, c, w, attrs), hk in zip(cases, hunks):
            if isinstance(hk, dict):
                continue
            k, u, pu, hh = hk
            gh = [[oc, ns, nc] for _, oc, ns, nc in hh]
            a = impl.get(i)
            if a is None or a == "panic" or a.startswith("err") or a.startswith("unexpected"):
                violations.append((f"split panicked/failed on P={p} C={c} W={w} attrs={attrs}: {a}",
                                   {"kind": "inprocess", "P": p, "C": c, "W": w, "attrs": attrs, "impl": a}))
                continue
            if ctx.model_ok:
                if model.get(i) != a:
                    mism.append((i, f"P={p} C={c} W={w} attrs={attrs} hunks={k},{u},{gh}: impl {a} model {model.get(i)}"))
                f = fields(spec[i])
                is_wf = f["wf3"][0] == 1
                if is_wf != wf3(p, c, w):
                    mism.append((i, f"wf3 differs on {p} {c} {w}"))
                if is_wf:
                    n_wf += 1
                    if (f["committed"][0], f["unstaged"][0], f["hunks"][0]) != (k, u, gh):
                        n_derive_bad += 1
                        mism.append((i, f"spec-level hunks differ from git diff -U0: P={p} C={c} W={w} "
                                        f"spec {f['committed'][0]},{f['unstaged'][0]},{f['hunks'][0]} git {k},{u},{gh}"))
                    if f["nohidden"][0] == 1:
                        n_sc += 1
                        if f["awf"][0] == 1:
                            v = f["v"]
                            if not (v[0] == 0 and v[1] == 1 and v[2] == 1 and v[3] == 1):
                                n_sc_fail += 1
                                mism.append((i, f"theorem instance fails in the extracted model: P={p} C={c} W={w} attrs={attrs} {spec[i]}"))
                if any(au != "human" for _, _, au in attrs) and (k or u):
                    distinct.add(body[i])
            if len(samples) < 3 and k and u and attrs:
                samples.append({"case": "inprocess", "P": p, "C": c, "W": w, "attrs": attrs, "git_hunks": [k, u, gh],
                                "impl": a, "model": model.get(i), "spec": spec.get(i)})
        obligations.append(("tie:correspondence Model/Split.v split_file vs to_authorship_log_and_initial_working_log",
                            (not mism) and ctx.model_ok, "; ".join(m[1] for m in mism[:3]) if mism else
                            ("" if ctx.model_ok else "model did not build")))
        obligations.append(("monitor:spec-level committed/unstaged/hunks_of equal the hunks of real git diff -U0 (wf3 inputs)",
                            n_derive_bad == 0, f"{n_derive_bad} differ"))
    finally:
        for k_, v_ in saved.items():
            if v_ is None:
                os.environ.pop(k_, None)
            else:
                os.environ[k_] = v_

    # ---------- C3: system level
    n_sys = 150 if quick else 3000
    scen = corpus_scenarios() + [gen_scenario(r.fork(f"sys{i}")) for i in range(n_sys)]
    res = C.parallel_map(run_scenario, [(ctx.scratch, i, s) for i, s in enumerate(scen)])
    spec_in = []
    for x in res:
        if "error" in x or "skip" in x:
            continue
        author = {int(k): v for k, v in x["author"].items()}
        attrs = [[i, i, C.cps(session_hash(TOOL, author[y]))] for i, y in enumerate(x["W"], 1) if author[y] != "H"]
        spec_in.append((str(x["idx"]), " ".join(C.sx(v) for v in [x["P"], x["C"], x["W"], attrs])))
    sspec = C.run_cases(C.driver_path("split"), "c04-spec", spec_in) if ctx.model_ok else {}
    sys_mism, n_run = [], 0
    n_known_fail = n_pass = n_sc_sys = 0
    sdist = {"no_hidden": 0, "hidden": 0, "skipped": 0}
    for x in res:
        if "error" in x:
            violations.append(("engine error", x))
            continue
        if "skip" in x:
            sdist["skipped"] += 1
            continue
        n_run += 1
        p, c, w = x["P"], x["C"], x["W"]
        author = {int(k): v for k, v in x["author"].items()}
        got_n = {h: set(v) for h, v in x["note"].items() if v}
        got_i = {h: set(v) for h, v in x["init"].items() if v}
        en, ei = expected_sets(p, c, w, author)
        nohidden = py_no_hidden(p, c, w)
        if ctx.model_ok and str(x["idx"]) in sspec:
            f = fields(sspec[str(x["idx"])])
            if (f["nohidden"][0] == 1) != nohidden:
                sys_mism.append(f"{x['name']}#{x['idx']}: no_hidden differs between the model and the check")
            pn, pi = parse_out(sspec[str(x["idx"])])
            pn = {a: set(v) for a, v in pn.items() if v}
            pi = {a: set(v) for a, v in pi.items() if v}
            if (pn, pi) != (got_n, got_i):
                sys_mism.append(f"{x['name']}#{x['idx']} P={p} C={c} W={w}: model note {pn} init {pi}; binary note {got_n} init {got_i}")
            if f["wf3"][0] != 1:
                sys_mism.append(f"{x['name']}#{x['idx']}: generated scenario outside wf3")
        sc_bool = nohidden
        sdist["no_hidden" if nohidden else "hidden"] += 1
        distinct.add(("sys", tuple(p), tuple(c), tuple(w), tuple(sorted(x["author"].items()))))
        fails = []
        if not x["committed_text_ok"]:
            fails.append("the commit does not contain the staged content")
        if got_n != en:
            fails.append(f"note {sorted((h, sorted(s)) for h, s in got_n.items())} but the commit added AI lines "
                         f"{sorted((h, sorted(s)) for h, s in en.items())}")
        if got_i != ei:
            fails.append(f"INITIAL {sorted((h, sorted(s)) for h, s in got_i.items())} but the AI lines left out are "
                         f"{sorted((h, sorted(s)) for h, s in ei.items())}")
        if x["note2"] is not None or ei:
            got2 = {h: set(v) for h, v in (x["note2"] or {}).items() if v}
            if got2 != ei:
                fails.append(f"second commit's note {sorted((h, sorted(s)) for h, s in got2.items())} but the carried AI "
                             f"lines are {sorted((h, sorted(s)) for h, s in ei.items())}")
        if len(samples) < 6:
            samples.append({"case": "system", "name": x["name"], "P": p, "C": c, "W": w, "note": x["note"], "init": x["init"],
                            "note2": x["note2"], "no_hidden": nohidden, "oracle_failures": fails})
        if fails:
            classes = classify_known(p, c, w, author, nohidden)
            if classes:
                n_known_fail += 1
                known_seen.update(classes)
            else:
                violations.append((f"{x['name']}#{x['idx']} P={p} C={c} W={w}: " + "; ".join(fails),
                                   {"kind": "system", **{k: v for k, v in x.items()}}))
        else:
            n_pass += 1
            if sc_bool:
                n_sc_sys += 1
    # ---------- C3b: carry across 2-4 commits by file and by hunk, unrelated commits in between
    n_carry = 64 if quick else 1500
    n_cedit = 48 if quick else 1500
    cscen = [corpus_carry(), corpus_carry_edit()] + [gen_carry(r.fork(f"carry{i}")) for i in range(n_carry)] \
        + [gen_carry_edit(r.fork(f"cedit{i}")) for i in range(n_cedit)]
    cres = C.parallel_map(run_carry, [(ctx.scratch, i, s) for i, s in enumerate(cscen)])
    cspec_in, ckeys = [], []
    for x in cres:
        if "error" in x or "skip" in x:
            continue
        author = {int(k): v for k, v in x["author"].items()}
        for j, cm in enumerate(x["commits"]):
            for f_, cf in cm["after"].items():
                if f_ in x["final"] and cm["before"].get(f_) != cf:
                    pf, wf = cm["before"].get(f_, []), cm["work"][f_]
                    attrs = [[i, i, C.cps(session_hash(TOOL, author[y]))] for i, y in enumerate(wf, 1) if author.get(y, "H") != "H"]
                    key = f"{x['idx']}:{j}:{f_}"
                    ckeys.append(key)
                    cspec_in.append((key, " ".join(C.sx(v) for v in [pf, cf, wf, attrs])))
    cspec = C.run_cases(C.driver_path("split"), "c04-spec", cspec_in) if ctx.model_ok else {}
    cdist = {"scenarios": 0, "commits": 0, "ai_commits": 0, "unrelated_commits": 0, "ai_checkpoint_between": 0,
             "new_file_left_out_then_untouched_commit": 0, "skipped": 0}
    n_carry_pass = 0
    for x in cres:
        if "error" in x:
            violations.append(("engine error (carry)", x))
            continue
        if "skip" in x:
            cdist["skipped"] += 1
            continue
        cdist["scenarios"] += 1
        author = {int(k): v for k, v in x["author"].items()}
        kinds = [st["kind"] for st in x["scenario"]["steps"]]
        if "aicommit" in kinds:
            cdist["ai_checkpoint_between"] += 1
        if x["name"].startswith("carry-edit"):
            cdist["carry_edit_scenarios"] = cdist.get("carry_edit_scenarios", 0) + 1
            st_ = x["scenario"]["steps"]
            if any(t["kind"] == "hcp_f" for t in st_) and any(t["kind"] == "write" for t in st_) \
                    and not any(t["kind"] == "ai_edit" for t in st_):
                cdist["human_checkpoint_then_person_edit_no_ai_checkpoint"] = \
                    cdist.get("human_checkpoint_then_person_edit_no_ai_checkpoint", 0) + 1
        fails, classes = [], set()
        recorded = {}
        pending_new = set()
        for j, cm in enumerate(x["commits"]):
            cdist["commits"] += 1
            cdist["ai_commits" if cm["kind"] == "commit" else "unrelated_commits"] += 1
            exp = {}
            for f_, ids in cm["after"].items():
                old_ids = set(cm["before"].get(f_, []))
                for i, y in enumerate(ids, 1):
                    a = author.get(y, "H")
                    if a != "H" and y not in old_ids:
                        exp.setdefault(f_, {}).setdefault(session_hash(TOOL, a), set()).add(i)
                        recorded[y] = recorded.get(y, 0) + 1
            got = {f_: {h: set(v) for h, v in hs.items()} for f_, hs in cm["note"].items()}
            if any(f_ in pending_new and cm["before"].get(f_) == cm["after"].get(f_) for f_ in pending_new):
                cdist["new_file_left_out_then_untouched_commit"] += 1
            for f_ in x["final"]:
                if f_ in NEW_FILES and cm["after"].get(f_) != x["final"][f_]:
                    pending_new.add(f_)
                else:
                    pending_new.discard(f_)
            if not cm["texts_ok"]:
                fails.append(f"commit {j} does not contain the staged content")
            if got != exp:
                fails.append(f"commit {j} ({cm['kind']}): note {sorted((f_, sorted((h, sorted(v)) for h, v in hs.items())) for f_, hs in got.items())} "
                             f"but the AI lines first contained in this commit are "
                             f"{sorted((f_, sorted((h, sorted(v)) for h, v in hs.items())) for f_, hs in exp.items())}")
            # known classes and model prediction, per file the commit changed
            for f_, cf in cm["after"].items():
                key = f"{x['idx']}:{j}:{f_}"
                if key in cspec:
                    fl = fields(cspec[key])
                    classes |= classify_known(cm["before"].get(f_, []), cf, cm["work"][f_],
                                              {y: author.get(y, "H") for y in set(cm["before"].get(f_, [])) | set(cf) | set(cm["work"][f_])},
                                              fl["nohidden"][0] == 1)
                    pn, _ = parse_out(cspec[key])
                    pn = {a: set(v) for a, v in pn.items() if v}
                    if pn != got.get(f_, {}):
                        sys_mism.append(f"carry#{x['idx']} commit {j} {f_}: model note {pn}; binary {got.get(f_, {})}")
        for f_, ids in x["final"].items():
            for y in ids:
                if author.get(y, "H") != "H" and recorded.get(y, 0) != 1:
                    fails.append(f"AI line {y} of {f_} is contained first in {recorded.get(y, 0)} commits (scenario bug)")
        distinct.add(("carry", json.dumps(x["scenario"], sort_keys=True)))
        if len(samples) < 8:
            samples.append({"case": "carry", "steps": kinds, "files": sorted(x["final"]),
                            "notes": [cm["note"] for cm in x["commits"]], "oracle_failures": fails})
        if fails:
            if classes:
                n_known_fail += 1
                known_seen.update(classes)
            else:
                violations.append((f"carry#{x['idx']} files={sorted(x['final'])} steps={kinds}: " + "; ".join(fails[:2]),
                                   {"kind": "carry", **x}))
        else:
            n_pass += 1
            n_carry_pass += 1
    n_run += cdist["scenarios"]
    sdist["carry"] = cdist

    if ctx.model_ok:
        obligations.append(("tie:system-level note+INITIAL equal the model's prediction from P,C,W and the ground truth",
                            not sys_mism, "; ".join(sys_mism[:3])))

    return {
        "obligations": obligations,
        "violations": violations,
        "known_seen": sorted(known_seen),
        "searched": f"{len(cc)} line lists, {len(lc)} attribution lists, {len(cases)} in-process splits on real "
                    f"repositories, {n_run} system-level scenarios (partial commit + carry; splits over 2-4 commits by file and by hunk with unrelated commits in between); "
                    f"{len(mism)} in-process and {len(sys_mism)} system-level model/impl mismatches: "
                    + "; ".join([m[1] for m in mism[:3]] + sys_mism[:3]),
        "coverage": {
            "evaluations": len(cc) + len(lc) + len(cases) + n_run,
            "distinct_nontrivial": len(distinct),
            "rule": "in-process: P of 0-6 lines, two rounds of 0-3 insert/delete/replace edits (plus moved / re-added "
                    "lines outside the spec domain), attributions tiling / all lines / messy (inverted, overlapping, out "
                    "of range, human); non-trivial = some non-human attribution and a non-empty diff, distinct by input. "
                    "system: 1-2 AI sessions (+ human inserts), hunk-wise partial staging, 0-2 unstaged edits "
                    "(insert/delete/modify at top/anywhere/bottom by a person or an AI), then a second commit; distinct by "
                    "(P,C,W,authors). carry: AI work on 2-3 files (tracked and new untracked), split over 2-4 commits by file "
                    "and by hunk, 0-2 unrelated events between commits (human commit / human edit / human checkpoint, in 2/5 "
                    "of the scenarios also an unrelated AI checkpoint+commit); distinct by scenario",
            "samples": samples,
            "input_distribution": {"inprocess_kinds": dist, "system": sdist},
            "hypothesis_hit_rate": {"wf3": f"{n_wf}/{len(cases)}", "no_hidden": f"{n_sc}/{n_wf}",
                                    "system_no_hidden_and_oracle_pass": f"{n_sc_sys}/{n_run}"},
            "oracle_failures_in_known_classes": n_known_fail,
            "oracle_passes": n_pass,
            "correspondence_mismatches": len(mism) + len(sys_mism),
        },
    }
