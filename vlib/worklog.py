"""Tie of Model/WorkLog.v to VirtualAttributions::from_just_working_log and
write_initial_attributions: facts are read from the real .git/ai directory of a scenario repo,
the model's prediction is compared with the real function called in-process."""
import json
import os
from . import common as C


def _la(l):
    return [l["start_line"], l["end_line"], C.cps(l["author_id"])]


def read_working_log(repo, base):
    d = os.path.join(repo, ".git", "ai", "working_logs", base)
    cps = []
    p = os.path.join(d, "checkpoints.jsonl")
    if os.path.exists(p):
        for line in open(p):
            if line.strip():
                cps.append(json.loads(line))
    initial = {}
    pi = os.path.join(d, "INITIAL")
    if os.path.exists(pi):
        try:
            initial = json.load(open(pi)).get("files", {})
        except Exception:
            initial = {}
    return initial, cps


def model_inputs(repo, base):
    """-> (initial sexp, checkpoints sexp, list of tolines cases)"""
    initial, cps = read_working_log(repo, base)
    ini = [[C.cps(f), [_la(l) for l in ls]] for f, ls in sorted(initial.items())]
    tol, shape = [], []
    for ci, cp in enumerate(cps):
        es = []
        for ei, e in enumerate(cp.get("entries", [])):
            chars = e.get("attributions", [])
            content = ""
            fp = os.path.join(repo, e["file"])
            if os.path.exists(fp):
                try:
                    content = open(fp, newline="").read()
                except Exception:
                    content = ""
            key = f"{ci}.{ei}"
            if chars:
                tol.append((key, C.sx([[a["start"], a["end"], C.cps(a["author_id"]), a["ts"]] for a in chars])
                            + " " + C.sx(C.cps(content))))
            es.append((key, e))
        shape.append((cp.get("kind") != "Human", es))
    return ini, shape, tol


def va_tie(repo, base):
    """(ok, detail, stats) — compares the extracted model with the Rust function on this repo state."""
    ini, shape, tol = model_inputs(repo, base)
    from_chars = C.run_cases(C.VHARNESS, "wl-tolines", tol, shards=1) if tol else {}
    cps = []
    n_entries = 0
    for is_ai, es in shape:
        ents = []
        for key, e in es:
            n_entries += 1
            fc = C.sx_parse_many(from_chars[key])[0] if key in from_chars else []
            ents.append([C.cps(e["file"]), [_la(l) for l in e.get("line_attributions", [])],
                         1 if e.get("attributions") else 0, fc])
        cps.append([1 if is_ai else 0] + ents)
    body = C.sx(ini) + " " + C.sx(cps)
    m = C.run_cases(C.driver_path("worklog"), "wl-va", [("x", body)], shards=1).get("x")
    i = C.run_cases(C.VHARNESS, "wl-va", [("x", C.sx(C.cps(repo)) + " " + C.sx(C.cps(base)))], shards=1).get("x")
    return (m == i), {"model": m, "impl": i, "case": body[:2000]}, {"checkpoints": len(cps), "entries": n_entries}
