"""System-level engine: drives the real git-ai binary (built from /repo's working tree) and the real
git in scratch repositories, keeps the ground truth of who wrote each line, and reads back notes /
blame / stats through independent parsers.

Determinism: HOME, GIT_CONFIG_GLOBAL, GIT_CONFIG_NOSYSTEM, GIT_AI_TEST_DB_PATH, dates, TZ, LC_ALL are
pinned per scratch repo; nothing touches the network.
"""
import hashlib
import json
import os
import re
import subprocess
import time

from . import common as C

REALGIT = "/usr/bin/git"


def session_hash(tool, sid):
    return hashlib.sha256(f"{tool}:{sid}".encode()).hexdigest()[:16]


class Sim:
    """One scratch world: a HOME, a sqlite path, one or more repositories."""

    def __init__(self, base, name="w", mode="wrapper", config_patch=None, binary=None):
        self.base = os.path.join(base, name)
        self.home = os.path.join(self.base, "home")
        os.makedirs(self.home, exist_ok=True)
        self.repo = os.path.join(self.base, "repo")
        self.mode = mode
        self.binary = binary or C.GITAI
        self.clock = 1767225600   # 2026-01-01: after OLDEST_AI_BLAME_DATE (2025-07-04), older commits are never AI-blamed
        self.log = []          # (argv, rc) for the replay file
        if config_patch is None:
            config_patch = {"exclude_prompts_in_repositories": [], "prompt_storage": "notes"}
        self.config_patch = config_patch
        self._write(os.path.join(self.home, ".gitconfig"),
                    "[user]\n\tname = Test User\n\temail = test@example.com\n[init]\n\tdefaultBranch = main\n"
                    "[advice]\n\tdetachedHead = false\n[core]\n\teditor = true\n[commit]\n\tgpgsign = false\n")

    # ------------------------------------------------------------ env / exec
    def env(self, extra=None):
        e = {
            "PATH": os.environ.get("PATH", "/usr/bin:/bin"),
            "HOME": self.home,
            "GIT_CONFIG_GLOBAL": os.path.join(self.home, ".gitconfig"),
            "GIT_CONFIG_NOSYSTEM": "1",
            "GIT_AI_TEST_DB_PATH": os.path.join(self.base, "db.sqlite"),
            "GITAI_TEST_DB_PATH": os.path.join(self.base, "db.sqlite"),
            "TZ": "UTC", "LC_ALL": "C", "LANG": "C",
            "GIT_TERMINAL_PROMPT": "0",
            "GIT_AUTHOR_DATE": f"{self.clock} +0000",
            "GIT_COMMITTER_DATE": f"{self.clock} +0000",
            "GIT_AI_SKIP_MANAGED_HOOKS_INSTALL": "1",
        }
        if self.config_patch is not None:
            e["GIT_AI_TEST_CONFIG_PATCH"] = json.dumps(self.config_patch)
        if extra:
            e.update(extra)
        return e

    def _write(self, p, text):
        os.makedirs(os.path.dirname(p), exist_ok=True)
        with open(p, "w", newline="") as f:
            f.write(text)

    def _run(self, argv, cwd=None, env=None, stdin=None, timeout=120):
        self.clock += 1
        try:
            p = subprocess.run(argv, cwd=cwd or self.repo, env=env or self.env(), input=stdin,
                               stdout=subprocess.PIPE, stderr=subprocess.PIPE, timeout=timeout)
            rc, out, err = p.returncode, p.stdout.decode("utf-8", "replace"), p.stderr.decode("utf-8", "replace")
        except subprocess.TimeoutExpired:
            rc, out, err = 124, "", "TIMEOUT"
        self.log.append({"argv": argv[1:] if argv and argv[0] == self.binary else argv, "rc": rc,
                         "via": "git-ai" if argv and argv[0] == self.binary else "direct"})
        return rc, out, err

    def git(self, *args, cwd=None, env_extra=None, stdin=None):
        """git through git-ai (wrapper mode) — or plain git when mode == 'hooks' / 'plain'."""
        if self.mode == "wrapper":
            return self._run([self.binary] + list(args), cwd=cwd, env=self.env(dict({"GIT_AI": "git"}, **(env_extra or {}))),
                             stdin=stdin)
        return self._run([REALGIT] + list(args), cwd=cwd, env=self.env(env_extra), stdin=stdin)

    def realgit(self, *args, cwd=None, env_extra=None, stdin=None):
        return self._run([REALGIT] + list(args), cwd=cwd, env=self.env(env_extra), stdin=stdin)

    def gitai(self, *args, cwd=None, env_extra=None, stdin=None):
        return self._run([self.binary] + list(args), cwd=cwd, env=self.env(env_extra), stdin=stdin)

    # ------------------------------------------------------------ repo basics
    def init(self, files=None, exec_files=()):
        os.makedirs(self.repo, exist_ok=True)
        self.realgit("init", "-q", ".")
        for p, t in (files or {}).items():
            self.write(p, t)
        for p in exec_files:                       # tracked with mode 100755
            os.chmod(os.path.join(self.repo, p), 0o755)
        if files:
            self.realgit("add", "-A")
            self.git("commit", "-q", "-m", "base")
        return self

    def write(self, path, text, repo=None):
        self._write(os.path.join(repo or self.repo, path), text)

    def read(self, path, repo=None):
        try:
            with open(os.path.join(repo or self.repo, path), newline="") as f:
                return f.read()
        except OSError:
            return None

    def head(self, cwd=None):
        rc, out, _ = self.realgit("rev-parse", "HEAD", cwd=cwd)
        return out.strip() if rc == 0 else None

    # ------------------------------------------------------------ checkpoints
    def checkpoint_human(self, paths=None, cwd=None):
        """what an agent integration does right before the agent edits (pre-edit hook)."""
        inp = {"type": "human", "repo_working_dir": cwd or self.repo}
        if paths is not None:
            inp["will_edit_filepaths"] = list(paths)
        time.sleep(0.002)
        return self.gitai("checkpoint", "agent-v1", "--hook-input", json.dumps(inp), cwd=cwd)

    def checkpoint_ai(self, session, paths, tool="toolx", model="m1", messages=None, cwd=None):
        inp = {"type": "ai_agent", "repo_working_dir": cwd or self.repo, "edited_filepaths": list(paths),
               "transcript": {"messages": messages if messages is not None else [{"type": "user", "text": "do " + session}]},
               "agent_name": tool, "model": model, "conversation_id": session}
        time.sleep(0.002)
        return self.gitai("checkpoint", "agent-v1", "--hook-input", json.dumps(inp), cwd=cwd)

    # ------------------------------------------------------------ reading results back
    def note_raw(self, sha, ref="ai", cwd=None):
        rc, out, _ = self.realgit("notes", f"--ref={ref}", "show", sha, cwd=cwd)
        return out if rc == 0 else None

    def note(self, sha, cwd=None):
        raw = self.note_raw(sha, cwd=cwd)
        return parse_note(raw) if raw is not None else None

    def blame(self, path, rev=None, extra=(), cwd=None):
        """{line_no: session_hash} for AI lines, via `git-ai blame --json`."""
        args = ["blame", "--json"] + list(extra) + ([rev] if rev else []) + [("./" + path) if path.startswith("-") else path]
        rc, out, err = self.gitai(*args, cwd=cwd)
        self.last_err = err[-400:] if rc != 0 else ""
        if rc != 0:
            return None
        try:
            obj = json.loads(out)
        except Exception:
            return None
        res = {}
        for k, h in obj.get("lines", {}).items():
            for ln in expand_key(k):
                res[ln] = h
        return res

    def file_at(self, sha, path, cwd=None):
        rc, out, _ = self.realgit("show", f"{sha}:{path}", cwd=cwd)
        return out if rc == 0 else None

    def ls_files_at(self, sha, cwd=None):
        rc, out, _ = self.realgit("ls-tree", "-r", "--name-only", "-z", sha, cwd=cwd)
        return [p for p in out.split("\0") if p] if rc == 0 else []

    def notes_list(self, ref="ai", cwd=None):
        """[(note_blob, annotated_object)]"""
        rc, out, _ = self.realgit("notes", f"--ref={ref}", "list", cwd=cwd)
        if rc != 0:
            return []
        return [tuple(l.split()) for l in out.splitlines() if l.strip()]


def expand_key(k):
    out = []
    for part in str(k).split(","):
        if "-" in part:
            a, b = part.split("-", 1)
            out.extend(range(int(a), int(b) + 1))
        elif part:
            out.append(int(part))
    return out


def parse_note(raw):
    """Independent (strict) parser of the v3 note format.
    Returns {"ok": bool, "files": {path: {hash: [lines...]}}, "order": [...], "prompts": {...}, "base": str,
             "problems": [...]}"""
    res = {"ok": True, "files": {}, "ranges": {}, "prompts": {}, "base": None, "problems": [], "raw": raw}
    lines = raw.split("\n")
    if "---" not in lines:
        res["ok"] = False
        res["problems"].append("no divider")
        return res
    i = lines.index("---")
    cur = None
    for l in lines[:i]:
        if l.startswith("  "):
            m = re.match(r"^  (\S+) (\d+(?:-\d+)?(?:,\d+(?:-\d+)?)*)$", l)
            if not m or cur is None:
                res["ok"] = False
                res["problems"].append(f"bad entry line {l!r}")
                continue
            h, rs = m.group(1), m.group(2)
            lst = res["files"][cur].setdefault(h, [])
            rl = res["ranges"][cur].setdefault(h, [])
            for part in rs.split(","):
                if "-" in part:
                    a, b = part.split("-")
                    rl.append((int(a), int(b)))
                    lst.extend(range(int(a), int(b) + 1))
                else:
                    rl.append((int(part), int(part)))
                    lst.append(int(part))
        else:
            if l == "":
                res["problems"].append("empty line in attestation section")
                continue
            p = l[1:-1] if (len(l) >= 2 and l[0] == '"' and l[-1] == '"') else l
            cur = p
            if p in res["files"]:
                res["problems"].append(f"duplicate file section {p!r}")
            res["files"].setdefault(p, {})
            res["ranges"].setdefault(p, {})
    try:
        md = json.loads("\n".join(lines[i + 1:]))
        res["prompts"] = md.get("prompts", {})
        res["base"] = md.get("base_commit_sha")
        res["schema"] = md.get("schema_version")
    except Exception as e:  # noqa
        res["ok"] = False
        res["problems"].append("metadata not JSON")
    return res


# ---------------------------------------------------------------------------------------------
# ground truth: every file is a list of (text, author) with pairwise-distinct texts
# ---------------------------------------------------------------------------------------------
class Truth:
    """Who wrote each line, by construction.  author: 'H' or a session name."""

    def __init__(self):
        self.files = {}        # path -> list of [text, author]
        self.counter = 0
        self.eol = {}          # path -> "\n" | "\r\n"
        self.final_nl = {}     # path -> bool

    def fresh(self, rng, words=("alpha", "beta", "gamma", "delta", "x = 1", "return y;", "fn f() {", "}")):
        self.counter += 1
        return f"L{self.counter} {rng.pick(list(words))}"

    def text(self, path):
        eol = self.eol.get(path, "\n")
        ls = [t for t, _ in self.files[path]]
        s = eol.join(ls)
        if ls and self.final_nl.get(path, True):
            s += eol
        return s

    def new_file(self, rng, path, n, author):
        self.files[path] = [[self.fresh(rng), author] for _ in range(n)]

    def insert(self, rng, path, pos, n, author):
        new = [[self.fresh(rng), author] for _ in range(n)]
        self.files[path][pos:pos] = new

    def delete(self, path, pos, n):
        del self.files[path][pos:pos + n]

    def replace(self, rng, path, pos, n, m, author):
        self.files[path][pos:pos + n] = [[self.fresh(rng), author] for _ in range(m)]

    def modify_inline(self, rng, path, pos, author):
        """substantive intra-line change: the line's last substantive change is now by `author`"""
        t = self.files[path][pos][0]
        self.counter += 1
        self.files[path][pos] = [t + f" mod{self.counter}", author]

    def reindent(self, path, pos, n):
        """whitespace-only change: authorship must not move"""
        for k in range(pos, min(pos + n, len(self.files[path]))):
            self.files[path][k][0] = "    " + self.files[path][k][0]

    def authors(self, path):
        return [a for _, a in self.files[path]]

    def snapshot(self):
        return {p: [list(x) for x in ls] for p, ls in self.files.items()}
