"""C01 — a commit's AI attribution is exactly the lines the agents wrote (system-level part)."""
import os
import shutil
from . import common as C
from .gitsim import Sim, Truth, session_hash

GEN_FILES = []
DRIVERS = []
THEOREMS = []
TRUSTED_BASE = []
ASSUMPTIONS = []
CLAIM = None

TOOL = "toolx"


def expected_note(truth, parent_texts):
    """{path: {hash: set(lines)}} for lines whose author is a session and whose text is new w.r.t. parent."""
    exp = {}
    for p, ls in truth.files.items():
        old = parent_texts.get(p, set())
        for i, (t, a) in enumerate(ls, 1):
            if a != "H" and t not in old:
                exp.setdefault(p, {}).setdefault(session_hash(TOOL, a), set()).add(i)
    return exp


def note_as_sets(note):
    if note is None:
        return {}
    out = {}
    for p, hs in note["files"].items():
        for h, ls in hs.items():
            if ls:
                out.setdefault(p, {}).setdefault(h, set()).update(ls)
    return out


def scenario(args):
    base, seed, idx, opts = args
    r = C.Rng(seed).fork(f"c01-{idx}")
    sim = Sim(base, f"s{idx}")
    tr = Truth()
    steps = []
    try:
        nfiles = r.range(1, 3)
        names = r.shuffle(["f.txt", "src/a.rs", "dir with space/b.py", "c-é.txt", "-dash.md"])[:nfiles]
        for n in names:
            tr.new_file(r, n, r.range(3, 9), "H")
            if r.chance(1, 6):
                tr.final_nl[n] = False
            if r.chance(1, 8):
                tr.eol[n] = "\r\n"
        sim.init({n: tr.text(n) for n in names})
        failures = []
        for rnd in range(r.range(1, 2)):
            parent_texts = {p: set(t for t, _ in ls) for p, ls in tr.files.items()}
            for e in range(r.range(1, opts.get("max_edits", 7))):
                actor = r.weighted([(3, "H"), (4, "s1"), (3, "s2")])
                if r.chance(1, 7):
                    path = f"new{tr.counter}.txt"
                    n = r.range(1, 4)
                    if actor != "H":
                        sim.checkpoint_human([path])
                    tr.new_file(r, path, n, actor)
                    op = ("new", path, n)
                else:
                    path = r.pick(sorted(tr.files))
                    ls = tr.files[path]
                    kind = r.weighted([(4, "ins"), (2, "del"), (3, "rep"), (2, "mod"), (1, "indent")])
                    if actor != "H":
                        sim.checkpoint_human([path])
                    if kind == "ins" or not ls:
                        pos, n = r.range(0, len(ls)), r.range(1, 3)
                        tr.insert(r, path, pos, n, actor)
                        op = ("ins", path, pos, n)
                    elif kind == "del":
                        pos = r.below(len(ls))
                        n = r.range(1, min(2, len(ls) - pos))
                        tr.delete(path, pos, n)
                        op = ("del", path, pos, n)
                    elif kind == "rep":
                        pos = r.below(len(ls))
                        n = r.range(1, min(2, len(ls) - pos))
                        m = r.range(1, 3)
                        tr.replace(r, path, pos, n, m, actor)
                        op = ("rep", path, pos, n, m)
                    elif kind == "mod":
                        pos = r.below(len(ls))
                        tr.modify_inline(r, path, pos, actor)
                        op = ("mod", path, pos)
                    else:
                        # whitespace-only re-indent of lines that are new since the last commit
                        cand = [k for k, (t, _) in enumerate(ls) if t not in parent_texts.get(path, set())]
                        if not cand:
                            continue
                        pos = r.pick(cand)
                        tr.reindent(path, pos, 1)
                        op = ("indent", path, pos)
                sim.write(path, tr.text(path))
                if actor != "H":
                    sim.checkpoint_ai(actor, [path], tool=TOOL)
                elif r.chance(1, 4):
                    sim.checkpoint_human([path])
                steps.append((actor,) + op)
            sim.realgit("add", "-A")
            rc, out, err = sim.git("commit", "-q", "-m", f"round {rnd}")
            if rc != 0:
                # nothing to commit (edits cancelled out) is fine
                continue
            head = sim.head()
            exp = expected_note(tr, parent_texts)
            got = note_as_sets(sim.note(head))
            if got != exp:
                failures.append({"what": "note differs from ground truth", "commit_round": rnd,
                                 "expected": {p: {h: sorted(s) for h, s in d.items()} for p, d in exp.items()},
                                 "got": {p: {h: sorted(s) for h, s in d.items()} for p, d in got.items()}})
            for p in tr.files:
                if not tr.files[p]:
                    continue      # empty file: git-ai blame refuses it (recorded under C09)
                bl = sim.blame(p)
                expb = {i: session_hash(TOOL, a) for i, (t, a) in enumerate(tr.files[p], 1) if a != "H"}
                if bl is None:
                    failures.append({"what": "blame failed", "path": p, "err": sim.last_err})
                elif bl != expb:
                    failures.append({"what": "blame differs from ground truth", "path": p, "commit_round": rnd,
                                     "expected": expb, "got": bl})
        return {"idx": idx, "steps": steps, "failures": failures, "files": tr.snapshot(),
                "log": sim.log if failures else None}
    finally:
        shutil.rmtree(sim.base, ignore_errors=True)


def run(ctx):
    n = 60 if ctx.tier == "quick" else 2000
    items = [(ctx.scratch, ctx.seed, i, {}) for i in range(n)]
    res = C.parallel_map(scenario, items)
    violations = []
    for r_ in res:
        if "error" in r_:
            violations.append(("engine error", r_))
        elif r_["failures"]:
            violations.append((r_["failures"][0]["what"] + " " + str(r_["steps"])[:200], r_))
    return {"obligations": [], "violations": violations, "known_seen": [], "searched": "",
            "coverage": {"evaluations": len(res), "distinct_nontrivial": len(res), "rule": "", "samples": res[:2]}}
