"""C01 — a commit's AI attribution is exactly the lines the agents wrote.

Layers: (1) diff text protocol (vlib/c01fmt.py, Properties/C01_fmt.v, if present),
        (2) working-log reader (Model/WorkLog.v; tie = vlib/worklog.py on real .git/ai states),
        (3) system-level oracle: generated edit histories on real repositories with ground truth
            by construction (pairwise-distinct line texts), note and blame compared exactly.
"""
import importlib
import os
import shutil
from . import common as C
from . import worklog
from .gitsim import Sim, Truth, session_hash

try:
    fmt = importlib.import_module("vlib.c01fmt")
    if not getattr(fmt, "INTEGRATED", False):     # set by the lead once the slice is finished
        fmt = None
except Exception:  # the diff-protocol slice is optional
    fmt = None

GEN_FILES = ["GenWorkLog", "GenCheckpoint"] + (fmt.GEN_FILES if fmt else [])
DRIVERS = ["worklog"] + (fmt.DRIVERS if fmt else [])
PROPERTY_FILES = ["C01"] + (["C01_fmt"] if fmt else [])
THEOREMS = ["C01_latest_wins", "C01_stale_refuted", "C01_nonvacuous"] + (fmt.THEOREMS if fmt else [])
CLAIM = {
    "text": "Partial proof. Theorems (Coq 8.16.1, closed): (a) the working-log reader returns, for every file, what the "
            "newest data-carrying checkpoint entry of that file says (C01_latest_wins, for all logs; false for the code "
            "before fix 739e3592: C01_stale_refuted) and (b) the diff-protocol parser recovers exactly the added lines of "
            "every well-formed `git diff -U0` document outside the known class (C01_fmt_*, when that slice is present). "
            "The models are tied to the code by the translator (GenWorkLog reads the two decisions from the source) and by "
            "calling the real functions in-process on the .git/ai state of every generated history. The end-to-end statement "
            "(note and blame equal the ground truth of who last substantively changed each added line) is decided by the "
            "oracle over generated histories; it is not a theorem because it runs through git and the diff heuristics "
            "of the tracker (C16).",
    "design_ref": "DESIGN.md §4 C01",
    "note": "Trusted: Coq kernel, translator, extraction+driver, harness, gitsim engine (ground truth by construction: "
            "pairwise distinct line texts). Environment: git diff/blame, imara-diff. Checkpoints are spaced >= 2 ms.",
    "technique": "Coq proof of the working-log reader + diff protocol; differential correspondence; generated-history oracle",
}
TRUSTED_BASE = [
    "Coq 8.16.1 kernel; theorems closed under the global context",
    "tools/gen/GenWorkLog.py (reads `attributions.remove(&entry.file)` and the INITIAL empty-write branch from the source)",
    "extraction (ExtrOcamlBasic only) + coq/Extract/d_worklog.ml; harness/src/p_worklog.rs",
    "vlib/gitsim.py (scenario engine, independent note parser, ground truth by construction)",
    "modelled not verified: git (diff/blame/notes), the tracker's char->line projection (fact we_from_chars, computed by the "
    "real attributions_to_line_attributions), serde",
]
ASSUMPTIONS = [
    "agent integrations take a human checkpoint before each agent edit and an AI checkpoint after it (the documented protocol)",
    "line texts in generated files are pairwise distinct, so git's and imara's diffs are unambiguous",
]

from . import hist
from .hist import TOOL, note_as_sets


def _jsonable(d):
    return hist.jsonable(d)


def scenario(args):
    base, seed, idx, opts = args
    r = C.Rng(seed).fork(f"c01-{idx}")
    script = hist.gen_script(r)
    sim = Sim(base, f"s{idx}")
    ties, tie_fail = [], []

    def before_commit(sim_, rnd):
        if opts.get("tie", True):
            ok, detail, st = worklog.va_tie(sim_.repo, sim_.head())
            ties.append(ok)
            if not ok:
                tie_fail.append({"what": "TIE working-log reader model differs from from_just_working_log", **detail})

    try:
        obs = hist.exec_script(sim, script, r=r.fork("exec"), before_commit=before_commit)
        fails, known = hist.compare_with_truth(script, obs)
        failures = tie_fail + fails
        return {"idx": idx, "known": known, "steps": hist.descr(script), "failures": failures, "kinds": script["kinds"], "ties": ties,
                "files": script["final"] if failures else None, "log": sim.log if failures else None}
    finally:
        shutil.rmtree(sim.base, ignore_errors=True)


RENAME_TARGETS = ["release notes.txt", "a b c.md", "dir with space/x y.rs", "plain2.txt", "caf\u00e9 1.txt", "sub/new name.py",
                  "q\"uote d.txt", "tab\there.txt"]


def scenario_rename(args):
    """a tracked file is renamed (staged with git mv, or moved by hand and added at commit time), an agent then appends
    lines to it and a person rewrites one of them: the note of the commit must list exactly the agent's surviving lines
    under the NEW name"""
    base, seed, idx, opts = args
    r = C.Rng(seed).fork(f"c01-mv-{idx}")
    sim = Sim(base, f"mv{idx}")
    try:
        n = r.range(3, 8)
        old = r.pick(["notes.txt", "src/old name.rs", "x.md"])
        new = RENAME_TARGETS[idx % len(RENAME_TARGETS)]
        base_lines = [f"h{idx}-{i}" for i in range(n)]
        sim.init({old: "".join(l + "\n" for l in base_lines), "other.txt": "o\n"})
        staged = r.chance(2, 3)
        os.makedirs(os.path.dirname(os.path.join(sim.repo, new)) or sim.repo, exist_ok=True)
        if staged:
            rc = sim.git("mv", old, new)[0]
        else:
            os.rename(os.path.join(sim.repo, old), os.path.join(sim.repo, new))
            rc = 0
        if rc != 0:
            return {"idx": idx, "failures": [], "skipped": True, "staged": staged, "new": new}
        k = r.range(2, 3)
        ai = [f"AI{idx}-{j}" for j in range(k)]
        sess = r.pick(["s1", "s2"])
        sim.checkpoint_human([new])
        sim.write(new, "".join(l + "\n" for l in base_lines + ai))
        sim.checkpoint_ai(sess, [new], tool=TOOL)
        cur = base_lines + ai
        human_rewrite = r.chance(1, 2)
        if human_rewrite:
            cur[-1] = f"H{idx}-rewritten"
            sim.write(new, "".join(l + "\n" for l in cur))
        sim.realgit("add", "-A")
        rc = sim.git("commit", "-q", "-m", "rename + agent work")[0]
        want = {i + 1 for i, t in enumerate(cur) if t.startswith("AI")}
        note = sim.note(sim.head())
        got = set()
        h = session_hash(TOOL, sess)
        if note and note.get("ok"):
            got = set(note["files"].get(new, {}).get(h, []))
            extra = {p: v for p, v in note["files"].items() if p != new and any(v.values())}
        else:
            extra = {}
        bl = sim.blame(new) or {}
        fails = []
        if rc != 0:
            fails.append({"what": f"commit failed ({rc})"})
        if got != want or extra:
            fails.append({"what": "note differs from ground truth after a rename", "expected": sorted(want), "got": sorted(got),
                          "other_files": {p: str(v) for p, v in extra.items()}, "new_name": new, "staged_rename": staged})
        if {i for i, hh in bl.items() if hh == h} != want:
            fails.append({"what": "blame differs from ground truth after a rename", "expected": sorted(want),
                          "got": sorted(bl), "new_name": new, "staged_rename": staged})
        return {"idx": idx, "failures": fails, "staged": staged, "new": new, "log": sim.log if fails else None}
    finally:
        shutil.rmtree(sim.base, ignore_errors=True)


def k1_witness(base):
    """known finding C01-K1: an added line whose text begins with '++ ' is rendered '+++ ...' by git diff
    and taken for a file header; a later hunk of the same file loses its attribution."""
    sim = Sim(base, "k1")
    try:
        sim.init({"f.txt": "l1\nl2\nl3\nl4\nl5\n"})
        sim.checkpoint_human(["f.txt"])
        sim.write("f.txt", "l1\n++ weird\nl2\nl3\nl4\nai2\nl5\n")
        sim.checkpoint_ai("s1", ["f.txt"], tool=TOOL)
        sim.realgit("add", "-A")
        sim.git("commit", "-q", "-m", "k1")
        got = note_as_sets(sim.note(sim.head()))
        want = {"f.txt": {session_hash(TOOL, "s1"): {2, 6}}}
        return got != want, _jsonable(got)
    finally:
        shutil.rmtree(sim.base, ignore_errors=True)


def k4_witness(base):
    """known finding C01-K4: AI lines committed; a later commit re-adds one of them with a whitespace-only
    change (here: the file has no final newline and the last line is deleted, so the AI line above loses its
    newline) — the line is blamed on the later commit, whose note does not list it."""
    sim = Sim(base, "k4")
    try:
        sim.init({"a.rs": "L1\nL2\nL3"})
        sim.checkpoint_human(["a.rs"])
        sim.write("a.rs", "L1\nL2\nA1\nA2\nL3")
        sim.checkpoint_ai("s1", ["a.rs"], tool=TOOL)
        sim.realgit("add", "-A")
        sim.git("commit", "-q", "-m", "r0")
        sim.write("a.rs", "L1\nL2\nA1\nA2")
        sim.realgit("add", "-A")
        sim.git("commit", "-q", "-m", "r1")
        bl = sim.blame("a.rs")
        h = session_hash(TOOL, "s1")
        return bl != {3: h, 4: h}, bl
    finally:
        shutil.rmtree(sim.base, ignore_errors=True)


def marker_reindent_witness(base):
    """fixed 5ee27e69 (regression of b88153d3): an agent writes lines, a person deletes one, the agent's next pre-edit
    checkpoint records the deletion, the agent re-indents the following line — all three remaining lines stay the agent's"""
    sim = Sim(base, "mk")
    try:
        sim.init({"x.txt": "x\n"})
        sim.checkpoint_human(["n.txt"])
        sim.write("n.txt", "one\ngone\ntwo\nthree\n")
        sim.checkpoint_ai("s1", ["n.txt"], tool=TOOL)
        sim.write("n.txt", "one\ntwo\nthree\n")
        sim.checkpoint_human(["n.txt"])
        sim.write("n.txt", "one\n    two\nthree\n")
        sim.checkpoint_ai("s2", ["n.txt"], tool=TOOL)
        sim.realgit("add", "-A")
        sim.git("commit", "-q", "-m", "r0")
        bl = sim.blame("n.txt")
        h = session_hash(TOOL, "s1")
        return bl != {1: h, 2: h, 3: h}, bl
    finally:
        shutil.rmtree(sim.base, ignore_errors=True)


def run(ctx):
    n = 200 if ctx.tier == "quick" else 4000
    obligations, violations, known = [], [], []
    items = [(ctx.scratch, ctx.seed, i, {"tie": ctx.model_ok}) for i in range(n)]
    res = C.parallel_map(scenario, items)
    kinds, n_tie, tie_bad, distinct = {}, 0, [], set()
    k2_seen = []
    for r_ in res:
        if "error" in r_:
            violations.append(("engine error: " + r_["error"][-300:], r_))
            continue
        for k, v in r_["kinds"].items():
            kinds[k] = kinds.get(k, 0) + v
        n_tie += len(r_["ties"])
        if "C01-K4" in r_.get("known", []):
            k2_seen.append(r_["steps"])
        if any(s[0] != "H" for s in r_["steps"]):
            distinct.add(str(r_["steps"]))
        for f in r_["failures"]:
            if f["what"].startswith("TIE"):
                tie_bad.append(f)
            else:
                violations.append((f["what"] + " after " + str(r_["steps"])[:300],
                                   {"kind": "history", "steps": r_["steps"], "failure": f, "files": r_["files"],
                                    "commands": r_["log"]}))
    n_mv = 16 if ctx.tier == "quick" else 240
    mv = C.parallel_map(scenario_rename, [(ctx.scratch, ctx.seed, i, {}) for i in range(n_mv)])
    for r_ in mv:
        if "error" in r_:
            violations.append(("engine error: " + r_["error"][-300:], r_))
            continue
        for f in r_["failures"]:
            violations.append((f["what"] + f" (new name {r_['new']!r}, staged={r_['staged']})",
                               {"kind": "rename", "failure": f, "commands": r_.get("log")}))
    obligations.append(("tie:correspondence Model/WorkLog.v vs from_just_working_log on real working logs",
                        not tie_bad and ctx.model_ok,
                        (tie_bad[0]["model"][:200] + " vs " + str(tie_bad[0]["impl"])[:200]) if tie_bad else
                        ("" if ctx.model_ok else "model did not build")))
    still, got = k1_witness(ctx.scratch)
    if still:      # repaired by b3d09776: a fixed entry suppresses nothing
        violations.append(("regression of repaired defect C01-K1 (added line beginning with '++ ' taken for a file header)",
                           {"kind": "fixed-witness", "got": _jsonable(got) if isinstance(got, dict) else str(got)}))
    bad_mk, got_mk = marker_reindent_witness(ctx.scratch)
    if bad_mk:
        violations.append(("regression of repaired defect (5ee27e69): a re-indented agent line below a line a person deleted lost "
                           "its attribution", {"kind": "fixed-witness", "blame": {str(k_): v for k_, v in (got_mk or {}).items()}}))
    still4, _ = k4_witness(ctx.scratch)
    if still4 or k2_seen:
        known.append("C01-K4 an AI line committed earlier is re-added by a later commit with a whitespace-only change "
                     "(end-of-file newline, re-indent) and becomes human")
    cov = {
        "known_class_hits": {"C01-K4": len(k2_seen)},
        "evaluations": len(res) + 1,
        "distinct_nontrivial": len(distinct),
        "rule": "generated histories: 1-3 files (odd names, CRLF, missing final newline), 1-2 commit rounds of 1-7 edits by two AI "
                "sessions and a human (insert/delete/replace/intra-line modify/re-indent/diff-looking lines), pairwise-distinct "
                "line texts; non-trivial = at least one AI edit; distinct by edit script",
        "samples": [{"steps": r_["steps"], "failures": len(r_["failures"])} for r_ in res[:3] if "steps" in r_],
        "input_distribution": kinds,
        "worklog_ties_checked": n_tie,
    }
    out = {"obligations": obligations, "violations": violations, "known_seen": known,
           "searched": f"{len(res)} generated histories (note + blame vs ground truth), {n_tie} working-log states",
           "coverage": cov}
    if fmt:
        sub = fmt.run_fmt(ctx)
        out["obligations"] += sub.get("obligations", [])
        out["violations"] += sub.get("violations", [])
        out["known_seen"] += [k for k in sub.get("known_seen", []) if k not in out["known_seen"]]
        cov["evaluations"] += sub.get("coverage", {}).get("evaluations", 0)
        cov["distinct_nontrivial"] += sub.get("coverage", {}).get("distinct_nontrivial", 0)
        cov["fmt"] = sub.get("coverage", {})
        out["searched"] += "; " + sub.get("searched", "")
    return out
