"""C10 — authorship notes converge across clones and are never lost by sync.

SYSTEM LEVEL.  A bare remote and 2–3 real clones, every user command through the git-ai proxy
(so the real push / fetch / pull / clone hooks run), driven by enumerated (quick) and random
(thorough) schedules.  After every step `git notes --ref=ai list` of the remote and of every clone
is read back.

  oracle (independent of the model):
    (a) no holder ever has, for a commit, a note other than the one its author's clone wrote for it
        (blob ids compared with what the writing clone produced at commit time),
    (b) keys on the remote never disappear,
    (e) when a fetch / pull through the proxy returns (by any exit of the pull post hook: pull failed, HEAD
        unchanged, HEAD moved; every connection to the remote slowed down), the clone has every note the
        remote had when the command started,
    (d) keys of a clone's own refs/notes/ai never disappear (a push / fetch / commit of the clone, or
        of anybody else, never makes the clone forget a note it had),
    (c) whenever, at user-command granularity, every clone has pushed after its last commit and
        then fetched after all those pushes ("once every clone has pushed and then fetched"), and
        always after the closing suffix "every clone pushes, one after the other, then every clone
        fetches", all holders have exactly the union of all notes written.
        Failures of (c) inside the known class C10-K3 (a user-level push with at least as many
        notes pushes of other clones landing inside it as it has rounds, decided on the schedule by
        exhausted()) are reported as known, not as violations.  C10-K1 (one overlapping push) is
        repaired by the retry loop: its witness is a regression witness and must converge.
  correspondence: Model/Sync.v (extracted, mode c10-run) on the same schedule: per step the
        remote's and every clone's map (keys and note blobs) and the push outcome (done / skipped).

Racing pushes are produced deterministically with the guarded rendezvous hook
`verif_api::sync_point` (env GIT_AI_VERIF_SYNC_DIR) placed before the pre-push merge, before the
notes push and before the post-fetch merge: a user push is split into pf (fetch into the tracking
ref) / pm (merge) / pe (non-forced push and everything after it), a user fetch into ff / fe; pr does the push
of the current round and stops after the fetch of the next round of the retry loop (pf pm (pr pm)* pe).  ps starts a push and stops it
while its pre-push notes fetch is on the wire (remote.origin.uploadpack wrapper that waits at the
rendezvous `wire`; only the pre-push notes fetch of a push talks to upload-pack).  The SAME clone
may commit at every one of these points (an agent committing while the user pushes / fetches).
The model expands the user-level tokens itself, in the order of the code read by
tools/gen/GenSync.py (where the existence test of refs/notes/ai sits relative to the fetch).
"""
import glob
import os
import shutil
import subprocess
import time

from . import common as C
from .gitsim import Sim, REALGIT

GEN_FILES = ["GenSync"]
DRIVERS = ["sync"]
THEOREMS = ["C10_no_loss", "C10_single_writer_values", "C10_push_atomic_succeeds",
            "C10_rejected_only_when_pushes_overlap", "C10_converge",
            "C10_converge_sequential", "C10_first_sync", "C10_pull_returns_synced", "C10_retry_succeeds", "C10_PushNotes_is_spreads",
            "C10_retry_budget_tight", "C10_converge_from_pushed", "C10_race_repaired", "C10_ours_example",
            "C10_nonvacuous", "C10_code_order", "C10_commit_during_sync_safe", "C10_copy_window_refuted"]
CLAIM = {
    "text": "Machine-checked proof (Coq 8.16.1, closed) over an executable model of the notes-sync protocol "
            "(Model/Sync.v: append-only DAG of notes commits, per clone refs/notes/ai and the tracking ref, the remote "
            "tip; atomic transitions Commit / FetchTracking / MergeLocal / PushRef exactly at the process boundaries "
            "of sync_authorship.rs; git notes merge -s ours as per-key three-way merge; non-forced push skipped when "
            "rejected), for ANY number of clones and ANY finite schedule: no ref ever holds for commit k anything but a "
            "note written for k, keys never disappear from the remote or a clone, the ancestor test never runs out of "
            "fuel (C10_no_loss); under single-writer keys every held value is the written one "
            "(C10_single_writer_values); an uninterleaved PushNotes always succeeds (C10_push_atomic_succeeds); after "
            "any prefix, once every clone has run an uninterleaved PushNotes and afterwards an uninterleaved FetchNotes, "
            "remote and all clones equal the union of all writes (C10_converge, C10_converge_sequential); first syncs "
            "copy (C10_first_sync).  When pushes overlap a round of the later push is rejected as non-fast-forward; the "
            "retry loop (3 rounds, read from the source) repeats fetch, merge and push, and a user-level push interleaved "
            "with ANY other steps gets the clone's notes onto the remote provided fewer of its rounds have a notes push "
            "inside them than it has rounds (C10_retry_succeeds, C10_converge_from_pushed; the bound is tight: "
            "C10_retry_budget_tight, known class C10-K3; the former witness of the silent skip converges: "
            "C10_race_repaired).  A same-clone commit between the existence test of refs/notes/ai and the copy is a "
            "model-level refutation (C10_copy_window_refuted) with a monitored hypothesis.  The model "
            "is tied to the code by running real clones of a real bare remote through the proxy on every enumerated "
            "schedule and comparing every holder's notes after every step.",
    "design_ref": "DESIGN.md §4 C10",
    "note": "Trusted: Coq kernel; extraction + d_sync.ml; vlib/c10.py + vlib/gitsim.py; the guarded sync_point hook. "
            "Environment: git (notes merge -s ours, fetch, non-forced push), one global object store in the model.",
    "technique": "Coq proof over an executable transition system + system-level differential correspondence with real clones",
}
TRUSTED_BASE = [
    "Coq 8.16.1 kernel; theorems closed under the global context",
    "extraction (ExtrOcamlBasic only) + coq/Extract/d_sync.ml",
    "vlib/c10.py, vlib/gitsim.py (scenario engine); /repo verif_api::sync_point (guarded, add-only; no-op without "
    "GIT_AI_VERIF_SYNC_DIR)",
    "modelled, not verified: git itself (notes merge -s ours, fetch +refspec, non-forced push, update-ref); the "
    "model's single global object store; choice of merge base = newest common ancestor (theorems hold for any)",
]
ASSUMPTIONS = [
    "each commit's note is written by exactly one clone, once (single_writer_per_key) for the convergence theorems",
    "git commands of the sync succeed unless git rejects a non-fast-forward push (no I/O or network errors)",
    "one process per clone at a time touches refs/notes/ai (concurrency inside one clone is C11)",
]

SYNC_NAMES = ("notes-push-merge", "notes-push", "notes-fetch-merge")


# ---------------------------------------------------------------------------------------------
# schedules.  token = (op, clone):
#   c commit | p push | f fetch | l pull (HEAD stays) | L pull --ff-only of the next clone's branch (HEAD moves, or the
#   pull fails) | j join (late clone through the proxy)
#   pf pm pe : a push split at the rendezvous points | ff fe : a fetch split before its merge
# ---------------------------------------------------------------------------------------------
RETRY_ROUNDS = 3     # NOTES_PUSH_ATTEMPTS of the repaired push_authorship_notes


def model_tokens(tokens, kinds=None):
    """user-level tokens for the model driver, which expands them in the order of the CURRENT source.
    A split push: ps? pf pm (pr pm)* pe; the driver is told the number of the round.  kinds[t] = the exit
    by which the real pull at position t left its post hook (failed / unchanged / moved)."""
    out, k, started, rnd = [], 0, set(), {}
    for t, (op, i) in enumerate(tokens):
        if op == "c":
            k += 1
            out.append(["commit", i, k, 100 + k])
        elif op == "p":
            out.append(["push", i])
        elif op in ("f", "j"):
            out.append(["fetch", i])
        elif op in ("l", "L"):
            out.append(["pull", i, (kinds or {}).get(t) or ("unchanged" if op == "l" else "moved")])
        elif op == "ps":
            started.add(i)
            out.append(["p0", i])
        elif op == "pf":
            out.append(["p1" if i in started else "p01", i])
            started.discard(i)
            rnd[i] = 1
        elif op == "pm":
            out.append(["pm", i, rnd[i]])
        elif op == "pr":
            out.append(["pr", i, rnd[i]])
            rnd[i] += 1
        elif op == "pe":
            out.append(["pe", i, rnd[i]])
        elif op == "ff":
            out.append(["f01", i])
        elif op == "fe":
            out.append(["f2", i])
        else:
            raise ValueError(op)
    return out


def exhausted(tokens):
    """C10-K3 (decidable on the schedule): some user-level push has at least RETRY_ROUNDS notes pushes of
    other clones landing while it is in flight (between its start and its end), so that every one of its
    rounds can be overlapped"""
    for a, (op, i) in enumerate(tokens):
        if op not in ("ps", "pf"):
            continue
        n = 0
        for op2, j in tokens[a + 1:]:
            if j == i and op2 == "pe":
                break
            if j != i and op2 in ("p", "pe", "pr"):
                n += 1
        if n >= RETRY_ROUNDS:
            return True
    return False


def user_level_synced(tokens, n):
    """the property's precondition at user-command granularity: every clone that committed has
    completed a push begun after its last commit, and every clone has completed a fetch begun after
    all those pushes completed."""
    last_commit = {i: -1 for i in range(n)}
    for t, (op, i) in enumerate(tokens):
        if op == "c":
            last_commit[i] = t
    done_push = {}
    for i in range(n):
        begun = None
        for t, (op, j) in enumerate(tokens):
            if j != i:
                continue
            if op == "p" and t > last_commit[i]:
                done_push[i] = t
            elif op in ("ps", "pf") and t > last_commit[i] and begun is None:
                begun = t
            elif op in ("ps", "pf") and t <= last_commit[i]:
                begun = None
            elif op == "pe" and begun is not None:
                done_push[i] = t
                begun = None
        if last_commit[i] >= 0 and i not in done_push:
            return False
    last_push = max(done_push.values()) if done_push else -1
    for i in range(n):
        ok, begun = False, None
        for t, (op, j) in enumerate(tokens):
            if j != i or t <= last_push:
                continue
            if op in ("f", "l", "L", "j"):
                ok = True
            elif op == "ff":
                begun = t
            elif op == "fe" and begun is not None:
                ok = True
        if not ok:
            return False
    return True


def well_formed(tokens, n):
    """per clone: sub-steps in order; while an operation is in flight the clone may only commit; j first"""
    st = {i: None for i in range(n)}
    joined = {i: True for i in range(n)}
    for op, i in tokens:
        if op == "j":
            joined[i] = False
    for op, i in tokens:
        if op == "j":
            if joined[i]:
                return False
            joined[i] = True
            continue
        if not joined[i]:
            return False
        cur = st[i]
        if op == "c":
            continue
        if op in ("p", "f", "l", "L", "ps", "ff"):
            if cur is not None:
                return False
            if op in ("ps", "ff"):
                st[i] = op
        elif op == "pf":
            if cur not in (None, "ps"):
                return False
            st[i] = "pf"
        elif op == "pm":
            if cur != "pf":
                return False
            st[i] = "pm"
        elif op == "pr":
            if cur != "pm":
                return False
            st[i] = "pf"
        elif op == "pe":
            if cur != "pm":
                return False
            st[i] = None
        elif op == "fe":
            if cur != "ff":
                return False
            st[i] = None
    return all(v is None for v in st.values())


def closing(n, joined_late=()):
    return [("p", i) for i in range(n)] + [("f", i) for i in range(n)]


def tok_str(tokens):
    return " ".join(f"{op}{i}" for op, i in tokens)


# ---------------------------------------------------------------------------------------------
# the real world
# ---------------------------------------------------------------------------------------------
class CloneSim(Sim):
    def __init__(self, base, name, idx):
        super().__init__(base, name)
        self.idx = idx
        self.branch = f"br{idx}"
        self.sync = os.path.join(self.base, "sync")
        os.makedirs(self.sync, exist_ok=True)
        self.proc = None
        self.holds = set()
        self.at = None
        self.errf = None
        self.exists = False
        self.nfile = 0
        self.wrapper = os.path.join(self.sync, "uploadpack.sh")
        with open(self.wrapper, "w") as f:
            f.write("#!/bin/sh\n"
                    f"d='{self.sync}'\n"
                    'if [ -e "$d/wire.hold" ]; then\n'
                    '  : > "$d/wire.reached"\n'
                    '  i=0\n'
                    '  while [ -e "$d/wire.hold" ] && [ $i -lt 6000 ]; do sleep 0.01; i=$((i+1)); done\n'
                    'fi\n'
                    'if [ -e "$d/slow" ]; then sleep 0.3; fi\n'
                    'exec git-upload-pack "$@"\n')
        os.chmod(self.wrapper, 0o755)

    def env(self, extra=None):
        e = super().env(extra)
        e["GIT_AI_VERIF_SYNC_DIR"] = self.sync
        return e

    # --- rendezvous
    def start_async(self, args, holds):
        for f in glob.glob(os.path.join(self.sync, "*.reached")) + glob.glob(os.path.join(self.sync, "*.hold")):
            os.remove(f)
        for h in holds:
            open(os.path.join(self.sync, h + ".hold"), "w").close()
        self.holds = set(holds)
        self.clock += 1
        self.errf = open(os.path.join(self.sync, "stderr.txt"), "w+b")
        self.proc = subprocess.Popen([self.binary] + list(args), cwd=self.repo, env=self.env({"GIT_AI": "git"}),
                                     stdout=subprocess.DEVNULL, stderr=self.errf)
        self.log.append({"argv": list(args), "via": "git-ai", "async": True, "holds": sorted(holds)})

    def wait_point(self, timeout=40.0):
        t0 = time.time()
        while time.time() - t0 < timeout:
            for h in list(self.holds):
                if os.path.exists(os.path.join(self.sync, h + ".reached")):
                    self.at = h
                    return h
            if self.proc.poll() is not None:
                self.at = None
                return None
            time.sleep(0.002)
        raise RuntimeError("rendezvous timeout")

    def release(self, h):
        for suf in (".reached", ".hold"):
            p = os.path.join(self.sync, h + suf)
            if os.path.exists(p):
                os.remove(p)
        self.holds.discard(h)

    def advance(self):
        """let the held process run to its next rendezvous point (or to its end); the point it leaves stays armed
        for the later rounds of the retry loop.  Returns (exited, rc, stderr)."""
        if self.proc is None:
            return True, None, None
        h = self.at
        if h is not None:
            self.release(h)
        nxt = self.wait_point()
        if h is not None and nxt is not None:
            open(os.path.join(self.sync, h + ".hold"), "w").close()
            self.holds.add(h)
        if nxt is None:
            rc, err = self.finish()
            return True, rc, err
        return False, None, None

    def finish(self):
        for h in list(self.holds):
            self.release(h)
        rc = self.proc.wait(timeout=90)
        self.errf.seek(0)
        err = self.errf.read().decode("utf-8", "replace")
        self.errf.close()
        self.proc, self.at = None, None
        return rc, err


class World:
    def __init__(self, base, name, n):
        self.base = os.path.join(base, name)
        os.makedirs(self.base)
        self.n = n
        seed = Sim(self.base, "seed")
        os.makedirs(seed.repo)
        seed.realgit("init", "-q", ".")
        seed.write("base.txt", "b1\nb2\n")
        seed.realgit("add", "-A")
        seed.realgit("commit", "-q", "-m", "base")
        self.bare = os.path.join(self.base, "remote.git")
        seed.realgit("clone", "-q", "--bare", seed.repo, self.bare, cwd=self.base)
        self.seed = seed
        self.clones = [CloneSim(self.base, f"c{i}", i) for i in range(n)]
        self.commits = {}       # k -> (sha, blob, clone)
        self.sha_key = {}       # sha -> k
        self.k = 0
        self.engine_errors = []

    def join(self, i):
        cl = self.clones[i]
        rc, out, err = cl.git("clone", "-q", self.bare, cl.repo, cwd=cl.base)
        if rc != 0:
            self.engine_errors.append(f"clone {i} failed: {err[-300:]}")
        cl.realgit("checkout", "-q", "-b", cl.branch)
        cl.realgit("config", "remote.origin.uploadpack", cl.wrapper)
        cl.exists = True

    def notes(self, i=None):
        """{commit sha: blob sha} of the remote (i None) or of clone i"""
        if i is None:
            rc, out, _ = self.seed.realgit("--git-dir=" + self.bare, "notes", "--ref=ai", "list", cwd=self.base)
        else:
            cl = self.clones[i]
            if not cl.exists:
                return {}
            rc, out, _ = cl.realgit("notes", "--ref=ai", "list")
        res = {}
        if rc == 0:
            for ln in out.splitlines():
                p = ln.split()
                if len(p) == 2:
                    res[p[1]] = p[0]
        return res

    # --- user commands
    def commit(self, i):
        cl = self.clones[i]
        self.k += 1
        cl.nfile += 1
        f = f"f{i}.txt"
        old = cl.read(f) or ""
        cl.write(f, old + f"ai line {self.k} of clone {i}\n")
        cl.checkpoint_ai(f"s{self.k}", [f], tool="toolx")
        cl.realgit("add", "-A")
        rc, out, err = cl.git("commit", "-q", "-m", f"k{self.k}")
        sha = cl.head()
        blob = self.notes(i).get(sha)
        if rc != 0 or blob is None:
            self.engine_errors.append(f"commit {self.k} in clone {i}: rc={rc} note={blob} {err[-200:]}")
        self.commits[self.k] = (sha, blob, i)
        self.sha_key[sha] = self.k

    PUSH = ("push", "-q", "origin")

    @staticmethod
    def push_failed(err):
        return "authorship push failed" in err

    def step(self, op, i):
        """returns {'pushed': bool|None}"""
        cl = self.clones[i]
        res = {"pushed": None}
        if op == "j":
            self.join(i)
        elif op == "c":
            self.commit(i)
        elif op == "p":
            rc, out, err = cl.git("push", "-q", "origin", cl.branch)
            if rc != 0:
                self.engine_errors.append(f"push {i} rc={rc}: {err[-300:]}")
            res["pushed"] = not self.push_failed(err)
        elif op == "f":
            rc, out, err = cl.git("fetch", "-q", "origin")
            if rc != 0:
                self.engine_errors.append(f"fetch {i} rc={rc}: {err[-300:]}")
        elif op in ("l", "L"):
            # every connection to the remote is slowed down, so that the background notes fetch (two
            # connections) outlasts git's own pull (one): an exit of the post hook that does not wait shows
            slow = os.path.join(cl.sync, "slow")
            open(slow, "w").close()
            h0 = cl.head()
            if op == "l":
                rc, out, err = cl.git("pull", "-q", "--no-rebase", "origin", "main")
                if rc != 0:
                    self.engine_errors.append(f"pull {i} rc={rc}: {err[-300:]}")
            else:
                other = self.clones[(i + 1) % self.n]
                rc, out, err = cl.git("pull", "-q", "--ff-only", "origin", other.branch)
            os.remove(slow)
            res["pull"] = "failed" if rc != 0 else ("unchanged" if cl.head() == h0 else "moved")
        elif op == "ps":
            cl.start_async(["push", "-q", "origin", cl.branch], ["wire", "notes-push-merge", "notes-push"])
            if cl.wait_point() != "wire":
                self.engine_errors.append(f"push {i}: the pre-push notes fetch did not reach the wire rendezvous")
        elif op == "pf":
            if cl.proc is None:
                cl.start_async(["push", "-q", "origin", cl.branch], ["notes-push-merge", "notes-push"])
            else:
                cl.release("wire")
            cl.wait_point()
        elif op == "pm":
            if cl.proc is not None and cl.at == "notes-push-merge":
                exited, rc, err = cl.advance()
                if exited:
                    self.engine_errors.append(f"push(split) {i}: ended between its fetch and its push: {str(err)[-200:]}")
        elif op == "pr":
            if cl.proc is not None and cl.at == "notes-push":
                exited, rc, err = cl.advance()
                if exited:
                    if rc != 0:
                        self.engine_errors.append(f"push(split) {i} rc={rc}: {err[-300:]}")
                    res["pushed"] = not self.push_failed(err)
        elif op == "pe":
            if cl.proc is not None:
                rc, err = cl.finish()
                if rc != 0:
                    self.engine_errors.append(f"push(split) {i} rc={rc}: {err[-300:]}")
                res["pushed"] = not self.push_failed(err)
        elif op == "ff":
            cl.start_async(["fetch", "-q", "origin"], ["notes-fetch-merge"])
            cl.wait_point()
        elif op == "fe":
            if cl.proc is not None:
                rc, err = cl.finish()
                if rc != 0:
                    self.engine_errors.append(f"fetch(split) {i} rc={rc}: {err[-300:]}")
        return res

    def abort(self):
        for cl in self.clones:
            if cl.proc is not None:
                try:
                    cl.finish()
                except Exception:
                    cl.proc.kill()

    # --- observation in model vocabulary
    def observe(self):
        """(remote_map, [local maps]) as {k: v} with v = 100+k for the author's note, or a string when the
        key or the blob is not what an author wrote (oracle (a))"""
        bad = []

        def conv(m, who):
            out = {}
            for sha, blob in m.items():
                k = self.sha_key.get(sha)
                if k is None:
                    bad.append(f"{who} has a note for unknown object {sha[:10]}")
                    out["?" + sha[:10]] = blob[:10]
                elif blob != self.commits[k][1]:
                    owner = [kk for kk, (_, b, _) in self.commits.items() if b == blob]
                    bad.append(f"{who} holds for commit k{k} the blob {blob[:10]} "
                               f"(written for {'k%d' % owner[0] if owner else 'no commit'}), author wrote {str(self.commits[k][1])[:10]}")
                    out[k] = "x" + blob[:10]
                else:
                    out[k] = 100 + k
            return out

        r = conv(self.notes(None), "remote")
        ls = [conv(self.notes(i), f"clone {i}") for i in range(self.n)]
        return r, ls, bad


def scenario(args):
    """runs one schedule (+ closing suffix); returns observations per token"""
    base, name, n, tokens, with_closing = args
    late = {i for op, i in tokens if op == "j"}
    w = World(base, name, n)
    fails, obs, pushes, kinds = [], [], [], {}
    try:
        for i in range(n):
            if i not in late:
                w.join(i)
        full = list(tokens) + (closing(n) if with_closing else [])
        prev_remote = {}
        prev_local = [{} for _ in range(n)]
        synced_points = []
        for t, (op, i) in enumerate(full):
            remote_at_start = dict(prev_remote)
            r = w.step(op, i)
            rm, ls, bad = w.observe()
            for b in bad:
                fails.append({"what": "ORACLE(a) " + b, "at": t})
            lost = [k for k in prev_remote if k not in rm]
            if lost:
                fails.append({"what": f"ORACLE(b) remote lost the notes of commits {lost}", "at": t})
            prev_remote = rm
            for c, l in enumerate(ls):
                gone = [k for k in prev_local[c] if k not in l]
                if gone:
                    fails.append({"what": f"ORACLE(d) clone {c} lost its notes of commits {gone}", "at": t})
            if op in ("f", "l", "L", "j"):
                # oracle (e): when a fetch / pull returns, the clone has every note the remote had when it started
                missing = [k for k in remote_at_start if k not in ls[i]]
                if missing:
                    fails.append({"what": f"ORACLE(e) {'pull' if op in ('l', 'L') else 'fetch'} of clone {i} returned "
                                          f"({r.get('pull', 'ok')}) without the remote's notes of commits {missing}", "at": t})
            if "pull" in r:
                kinds[t] = r["pull"]
            prev_local = ls
            obs.append((rm, ls))
            pushes.append(r["pushed"])
            # oracle (c)
            at_end_of_body = (t == len(tokens) - 1)
            at_end = (t == len(full) - 1)
            if (at_end_of_body and user_level_synced(tokens, n)) or (at_end and with_closing):
                want = {k: 100 + k for k in w.commits}
                diffs = []
                if rm != want:
                    diffs.append(("remote", sorted(set(want) - set(rm)), sorted(k for k in rm if rm[k] != want.get(k))))
                for c, l in enumerate(ls):
                    if l != want:
                        diffs.append((f"clone {c}", sorted(set(want) - set(l)), sorted(k for k in l if l[k] != want.get(k))))
                synced_points.append({"at": t, "closing": at_end and with_closing and not at_end_of_body,
                                      "diffs": diffs})
        return {"name": name, "n": n, "tokens": tokens, "obs": obs, "pushes": pushes, "fails": fails, "kinds": kinds,
                "synced": synced_points, "errors": w.engine_errors,
                "log": [c.log for c in w.clones] if (fails or w.engine_errors) else None}
    finally:
        w.abort()
        shutil.rmtree(w.base, ignore_errors=True)


# ---------------------------------------------------------------------------------------------
# enumeration
# ---------------------------------------------------------------------------------------------
def enum_atomic(n, length, ops=("c", "p", "f")):
    """all schedules of exactly `length` atomic steps over n clones, up to renaming of clones
    (clones appear in order of first use), with at least one commit and one sync step"""
    alpha = [(op, i) for i in range(n) for op in ops]
    out = []

    def rec(pre, used):
        if len(pre) == length:
            if any(op == "c" for op, _ in pre) and any(op != "c" for op, _ in pre):
                out.append(list(pre))
            return
        for op, i in alpha:
            if i > used:            # symmetry: a new clone must be the next unused one
                continue
            pre.append((op, i))
            rec(pre, max(used, i + 1))
            pre.pop()

    rec([], 0)
    return out


def interleavings(a, b):
    if not a:
        yield list(b)
        return
    if not b:
        yield list(a)
        return
    for rest in interleavings(a[1:], b):
        yield [a[0]] + rest
    for rest in interleavings(a, b[1:]):
        yield [b[0]] + rest


def enum_races():
    """clone 0 commits and pushes in three sub-steps; clone 1 runs a short program with a push in it"""
    out = []
    p0 = [("pf", 0), ("pm", 0), ("pe", 0)]
    progs1 = []
    for ln in (1, 2, 3):
        def rec(pre):
            if len(pre) == ln:
                if ("p", 1) in pre and (("c", 1) in pre[:pre.index(("p", 1))]):
                    progs1.append(list(pre))
                return
            for op in ("c", "p", "f"):
                pre.append((op, 1))
                rec(pre)
                pre.pop()
        rec([])
    for pr in progs1:
        for il in interleavings(p0, pr):
            out.append([("c", 0)] + il + [("f", 0), ("f", 1)])
    # both pushes split (the witness family of C10_race_needs_repush)
    q0 = [("pf", 0), ("pm", 0), ("pe", 0)]
    q1 = [("pf", 1), ("pm", 1), ("pe", 1)]
    for il in interleavings(q0, q1):
        out.append([("c", 0), ("c", 1)] + il + [("f", 0), ("f", 1)])
        out.append([("c", 0), ("p", 0), ("c", 0), ("c", 1)] + il + [("f", 0), ("f", 1)])
    # split fetches against a push
    for il in interleavings([("ff", 0), ("fe", 0)], [("c", 1), ("p", 1)]):
        out.append([("c", 0), ("p", 0), ("c", 1), ("p", 1), ("c", 0)] + il + [("p", 0), ("f", 1), ("f", 0)])
    return out


def enum_own_commit():
    """the SAME clone commits while its own push / fetch is in flight, at every rendezvous point (on the
    wire before the pre-push fetch lands, after the fetch, before the notes push; before the post-fetch
    merge), for first-time syncs (the clone has no notes ref yet) and for clones that have one, against a
    remote with and without notes"""
    bodies = [
        [("ps", 1), ("c", 1), ("pf", 1), ("pm", 1), ("pe", 1)],
        [("ps", 1), ("pf", 1), ("c", 1), ("pm", 1), ("pe", 1)],
        [("ps", 1), ("pf", 1), ("pm", 1), ("c", 1), ("pe", 1)],
        [("ps", 1), ("c", 1), ("pf", 1), ("c", 1), ("pm", 1), ("c", 1), ("pe", 1)],
        [("pf", 1), ("c", 1), ("pm", 1), ("pe", 1)],
        [("pf", 1), ("pm", 1), ("c", 1), ("pe", 1)],
        [("ff", 1), ("c", 1), ("fe", 1)],
        [("ff", 1), ("c", 1), ("fe", 1), ("p", 1)],
    ]
    prefixes = [
        [("c", 0), ("p", 0)],                 # remote has notes, clone 1 has none: first-time sync
        [("c", 0), ("p", 0), ("c", 1)],       # remote has notes, clone 1 has its own
        [("c", 0), ("p", 0), ("f", 1)],       # clone 1 already has the remote's notes
        [("c", 0)],                           # remote has no notes
        [("c", 1)],
    ]
    out = []
    for pre in prefixes:
        for b in bodies:
            out.append(pre + b)
            out.append(pre + b + [("f", 0)])
    # both clones at once, three clones
    out.append([("c", 0), ("p", 0), ("ps", 1), ("ps", 2), ("c", 1), ("c", 2), ("pf", 1), ("pf", 2),
                ("pm", 1), ("pm", 2), ("pe", 1), ("pe", 2)])
    return out


def enum_pulls():
    """pulls by every exit of the post hook while the remote holds notes the clone lacks: HEAD unchanged (pull of
    main), HEAD moved (fast-forward to another clone's branch), failed (--ff-only of a diverged branch, or of a
    branch that is not on the remote yet)"""
    out = []
    for tail in ([("l", 1)], [("L", 1)], [("c", 1), ("L", 1)], [("c", 1), ("l", 1)], [("L", 1), ("c", 1), ("p", 1), ("l", 0)],
                 [("l", 1), ("c", 0), ("p", 0), ("l", 1)], [("f", 1)], [("L", 1), ("c", 0), ("p", 0), ("L", 1)]):
        out.append([("c", 0), ("p", 0)] + tail)
        out.append([("c", 0), ("p", 0), ("c", 0), ("p", 0)] + tail)
    out.append([("c", 0), ("L", 1), ("p", 0), ("L", 1)])           # branch not on the remote: failed pull
    out.append([("c", 0), ("p", 0), ("c", 1), ("p", 1), ("l", 2), ("L", 2)])
    return out


def gen_random(r, n, length):
    toks, st, joined = [], {i: None for i in range(n)}, {i: True for i in range(n)}
    late = n - 1 if (n >= 3 and r.chance(1, 3)) else None
    if late is not None:
        joined[late] = False
    while len(toks) < length:
        i = r.below(n)
        if not joined[i]:
            if r.chance(1, 3):
                toks.append(("j", i))
                joined[i] = True
            continue
        cur = st[i]
        if cur is not None and r.chance(1, 3):
            toks.append(("c", i))                      # the same clone commits while its sync is in flight
        elif cur == "ps":
            toks.append(("pf", i)); st[i] = "pf"
        elif cur == "pf":
            toks.append(("pm", i)); st[i] = "pm"
        elif cur == "pm":
            if r.chance(1, 4):
                toks.append(("pr", i)); st[i] = "pf"
            else:
                toks.append(("pe", i)); st[i] = None
        elif cur == "ff":
            toks.append(("fe", i)); st[i] = None
        else:
            op = r.weighted([(30, "c"), (18, "p"), (12, "f"), (6, "l"), (4, "L"), (12, "pf"), (12, "ps"), (10, "ff")])
            toks.append((op, i))
            if op in ("pf", "ps", "ff"):
                st[i] = op
    for i in range(n):                      # complete what is in flight
        if st[i] == "ps":
            toks += [("pf", i), ("pm", i), ("pe", i)]
        elif st[i] == "pf":
            toks += [("pm", i), ("pe", i)]
        elif st[i] == "pm":
            toks.append(("pe", i))
        elif st[i] == "ff":
            toks.append(("fe", i))
        if not joined[i]:
            toks.append(("j", i))
    return toks


# ---------------------------------------------------------------------------------------------
def model_runs(runs):
    """runs: list of (name, n, full token list) -> {name: per-token (remote, locals, outcome), fuel, known, window}"""
    cases = []
    for name, n, full, kinds in runs:
        cases.append((name, f"{n} {C.sx(model_tokens(full, kinds))}"))
    res = C.run_cases(C.driver_path("sync"), "c10-run", cases)
    out = {}
    for name, n, full, _kinds in runs:
        line = res.get(name)
        if line is None or line.startswith("driver-exception"):
            out[name] = None
            continue
        groups = C.sx_parse_many(line)
        per_tok = groups[:len(full)]
        tail = {g[0]: g[1] for g in groups[len(full):]}
        seq = [({k: v for k, v in rm}, [{k: v for k, v in l} for l in ls], o) for o, rm, ls in per_tok]
        out[name] = {"seq": seq, "fuel": tail.get("fuel"), "known": tail.get("known"), "window": tail.get("window"),
                     "attempts": tail.get("attempts")}
    return out


# C10-K1 (fixed by the retry loop): a REGRESSION witness, must converge
K1_WITNESS = [("c", 0), ("c", 1), ("pf", 0), ("pm", 0), ("pf", 1), ("pm", 1), ("pe", 0), ("pe", 1), ("f", 0), ("f", 1)]
# C10-K3: clone 0 lands a notes push inside every round of clone 1's push
K3_WITNESS = ([("c", 1), ("pf", 1), ("pm", 1), ("c", 0), ("p", 0), ("pr", 1), ("pm", 1), ("c", 0), ("p", 0), ("pr", 1),
               ("pm", 1), ("c", 0), ("p", 0), ("pe", 1), ("f", 0), ("f", 1)])


def enum_retries():
    """a user-level push whose rounds are overlapped by k = 0..3 notes pushes of the other clone, each landing either
    between the round's fetch and its merge or between its merge and its push"""
    out = []

    def rec(k, acc):
        if k == 0:
            out.append(acc)
            return
        for where in ("a", "b"):
            rec(k - 1, acc + [where])

    for k in range(0, RETRY_ROUNDS + 1):
        rec(k, [])
    scheds = []
    for places in out:
        toks = [("c", 1), ("c", 0), ("p", 0), ("pf", 1)]
        for idx in range(RETRY_ROUNDS):
            other = [("c", 0), ("p", 0)]
            if idx < len(places) and places[idx] == "a":
                toks += other
            toks.append(("pm", 1))
            if idx < len(places) and places[idx] == "b":
                toks += other
            toks.append(("pr", 1) if idx < RETRY_ROUNDS - 1 else ("pe", 1))
        toks += [("f", 0), ("f", 1)]
        scheds.append(toks)
    return scheds


def run(ctx):
    obligations, violations, known_seen = [], [], []
    r = ctx.rng
    plans = []          # (name, n, tokens, with_closing, family)
    if ctx.tier == "quick":
        for L in (4,):
            for k, toks in enumerate(enum_atomic(2, L)):
                plans.append((f"a{L}-{k}", 2, toks, True, f"atomic-len{L}"))
        for k, toks in enumerate(enum_races()):
            plans.append((f"r{k}", 2, toks, True, "race"))
        for k, toks in enumerate(enum_atomic(2, 3, ops=("c", "p", "f", "l"))):
            plans.append((f"l3-{k}", 2, toks, True, "atomic-pull"))
        for k, toks in enumerate(enum_own_commit()):
            plans.append((f"o{k}", 3 if any(i == 2 for _, i in toks) else 2, toks, True, "own-commit-in-flight"))
        rr = r.fork("quick-random")
        for k, toks in enumerate(rr.shuffle(enum_atomic(2, 5))[:100]):
            plans.append((f"a5-{k}", 2, toks, True, "atomic-len5-sample"))
        for k, toks in enumerate(rr.shuffle(enum_atomic(3, 4))[:40]):
            plans.append((f"b4-{k}", 3, toks, True, "atomic-3clones-len4-sample"))
        for k in range(50):
            plans.append((f"q{k}", 3, gen_random(rr, 3, rr.range(5, 9)), True, "random3"))
    else:
        for L in (4, 5):
            for k, toks in enumerate(enum_atomic(2, L)):
                plans.append((f"a{L}-{k}", 2, toks, True, f"atomic-len{L}"))
        for k, toks in enumerate(enum_atomic(2, 3, ops=("c", "p", "f", "l"))):
            plans.append((f"l3-{k}", 2, toks, True, "atomic-pull"))
        for k, toks in enumerate(enum_races()):
            plans.append((f"r{k}", 2, toks, True, "race"))
        for k, toks in enumerate(enum_own_commit()):
            plans.append((f"o{k}", 3 if any(i == 2 for _, i in toks) else 2, toks, True, "own-commit-in-flight"))
        rr = r.fork("thorough-random")
        for k in range(1500):
            n = rr.pick([2, 3, 3])
            plans.append((f"t{k}", n, gen_random(rr, n, rr.range(8, 20)), True, f"random{n}"))
    for k, toks in enumerate(enum_retries()):
        plans.append((f"y{k}", 2, toks, True, "retry-rounds"))
    for k, toks in enumerate(enum_pulls()):
        plans.append((f"u{k}", 3 if any(i == 2 for _, i in toks) else 2, toks, True, "pull-exits"))
    plans.append(("k1", 2, K1_WITNESS, False, "witness"))
    plans.append(("k3", 2, K3_WITNESS, False, "witness"))
    for p in plans:
        assert well_formed(p[2], p[1]), p

    items = [(ctx.scratch, name, n, toks, wc) for name, n, toks, wc, _ in plans]
    t0 = time.time()
    res = C.parallel_map(scenario, items)
    wall_real = time.time() - t0

    mod = {}
    if ctx.model_ok:
        mod = model_runs([(name, n, list(toks) + (closing(n) if wc else []), rs.get("kinds", {}))
                          for (name, n, toks, wc, _), rs in zip(plans, res)])

    fam_count, tok_count, outcomes = {}, {}, {"push_done": 0, "push_skipped": 0}
    tie_bad, known_tie_bad, fuel_bad, reject_outside, window_bad = [], [], [], [], []
    n_steps, distinct, k1_hits, synced_checked = 0, set(), 0, 0
    k1_witness_fails = False
    for (name, n, toks, wc, fam), rs in zip(plans, res):
        fam_count[fam] = fam_count.get(fam, 0) + 1
        if "error" in rs:
            violations.append(("engine error: " + rs["error"][-400:], {"kind": "engine", "schedule": tok_str(toks)}))
            continue
        if rs["errors"]:
            violations.append(("engine error: " + rs["errors"][0], {"kind": "engine", "schedule": tok_str(toks),
                                                                      "commands": rs["log"]}))
            continue
        full = list(toks) + (closing(n) if wc else [])
        n_steps += len(full)
        for op, _i in full:
            tok_count[op] = tok_count.get(op, 0) + 1
        for p in rs["pushes"]:
            if p is True:
                outcomes["push_done"] += 1
            elif p is False:
                outcomes["push_skipped"] += 1
        distinct.add(tok_str(toks))
        # monitor (C10_retry_succeeds on real data): a user-level push of a clone that has notes ends rejected
        # only when the retry budget was exhausted (class C10-K3)
        for t, p in enumerate(rs["pushes"]):
            if p is False and rs["obs"][t][1][full[t][1]]:
                if not exhausted(full[:t + 1]):
                    reject_outside.append(f"{tok_str(full[:t + 1])}")
        is_known = exhausted(toks)
        # ---- oracle
        for f in rs["fails"]:
            violations.append((f["what"] + f" after step {f['at']} of [{tok_str(full)}]",
                               {"kind": "schedule", "clones": n, "schedule": tok_str(full), "failure": f,
                                "commands": rs["log"]}))
        for sp in rs["synced"]:
            synced_checked += 1
            if not sp["diffs"]:
                continue
            if sp["closing"]:
                violations.append((f"ORACLE(c) not converged after the closing suffix of [{tok_str(full)}]: {sp['diffs']}",
                                   {"kind": "schedule", "clones": n, "schedule": tok_str(full), "diffs": sp["diffs"]}))
            elif is_known:
                k1_hits += 1
                if name == "k3":
                    k1_witness_fails = True
            else:
                violations.append((f"ORACLE(c) every clone pushed and then fetched, not converged, outside C10-K3: "
                                   f"[{tok_str(toks)}]: {sp['diffs']}",
                                   {"kind": "schedule", "clones": n, "schedule": tok_str(toks), "diffs": sp["diffs"]}))
        # ---- correspondence
        m = mod.get(name)
        if ctx.model_ok:
            if m is None:
                tie_bad.append((tok_str(full), "model driver failed"))
                continue
            if m["fuel"] != 0:
                fuel_bad.append(tok_str(full))
            if m["window"] != 0:
                window_bad.append(tok_str(full))
            if m["attempts"] != RETRY_ROUNDS:
                known_tie_bad.append(f"model has {m['attempts']} rounds")
            for t, ((rm, ls), (mrm, mls, mo)) in enumerate(zip(rs["obs"], m["seq"])):
                if rm != mrm or ls != mls:
                    tie_bad.append((tok_str(full), f"after step {t} ({full[t][0]}{full[t][1]}): real remote={rm} clones={ls}; "
                                                   f"model remote={mrm} clones={mls}"))
                    break
                p = rs["pushes"][t]
                if p is not None:
                    mok = mo in ("created", "updated")
                    if mok != p:
                        tie_bad.append((tok_str(full), f"push outcome at step {t}: real {'done' if p else 'skipped'}, model {mo}"))
                        break
    obligations.append(("tie:correspondence Model/Sync.v vs real clones (notes of every holder after every step, push outcomes)",
                        ctx.model_ok and not tie_bad,
                        (tie_bad[0][0] + " :: " + tie_bad[0][1])[:600] if tie_bad else ("" if ctx.model_ok else "model did not build")))
    obligations.append((f"tie:the notes push has {RETRY_ROUNDS} rounds (NOTES_PUSH_ATTEMPTS read from the source = the bound of class C10-K3)",
                        ctx.model_ok and not known_tie_bad, "; ".join(known_tie_bad[:1])))
    obligations.append(("monitor:fuel never exhausted on any executed schedule", not fuel_bad, "; ".join(fuel_bad[:3])))
    obligations.append(("monitor:no executed schedule puts a commit into the copy window of the model (the existence test of "
                        "refs/notes/ai and the copy acting on it are adjacent processes; rendezvous points lie outside)",
                        not window_bad, "; ".join(window_bad[:3])))
    obligations.append(("monitor:a real user-level notes push ends rejected only when its retry budget is exhausted (C10-K3) or the clone has no notes",
                        not reject_outside, "; ".join(reject_outside[:3])))
    if k1_witness_fails or k1_hits:
        known_seen.append(f"C10-K3 retry budget exhausted: {RETRY_ROUNDS} notes pushes of other clones land inside the {RETRY_ROUNDS} rounds of "
                          "one user-level push; its notes stay off the remote until the clone pushes again")
    cov = {
        "evaluations": n_steps,
        "runs": len(plans),
        "distinct_nontrivial": len(distinct),
        "rule": "a schedule = sequence of user commands (commit with an AI edit / push / fetch / pull / late clone, pushes and "
                "fetches optionally split at the rendezvous points) by 2-3 real clones of one bare remote, all through the "
                "proxy; quick: ALL atomic schedules of length 4 over 2 clones x {commit,push,fetch} up to clone renaming with "
                ">=1 commit and >=1 sync, all of length 3 with pull added, all interleavings of a 3-part push with the other clone's programs, both pushes "
                "split, split fetches, the SAME clone committing at every rendezvous point of its own push (on the wire, after "
                "the fetch, before the push) and fetch for first-time and later syncs, samples of the length-5 (2 clones) and length-4 (3 clones) atomic schedules, 50 random "
                "3-clone schedules with late clones, pulls and split operations; each followed by the closing suffix; non-trivial = "
                "distinct schedule with a commit and a sync step; every step observed on every holder",
        "samples": [tok_str(p[2]) for p in plans[:3]] + [tok_str(K1_WITNESS), tok_str(K3_WITNESS)],
        "input_distribution": {"families": fam_count, "tokens": tok_count},
        "push_outcomes": outcomes,
        "synced_points_checked": synced_checked,
        "known_class_hits": {"C10-K3": k1_hits},
        "wall_real_s": round(wall_real, 1),
    }
    return {"obligations": obligations, "violations": violations, "known_seen": known_seen,
            "searched": f"{len(plans)} schedules ({n_steps} observed steps) on real clones: oracle (a) no foreign/invented note, "
                        f"(b) remote keys never disappear, (d) a clone's keys never disappear, (c) convergence at {synced_checked} synced points",
            "coverage": cov}
