// Generates mods.rs: one `mod` per src/p_*.rs plus a dispatcher over their `dispatch` functions,
// so that adding a property module needs no edit of main.rs.
use std::{env, fs, path::Path};

fn main() {
    let mut names: Vec<String> = fs::read_dir("src")
        .unwrap()
        .filter_map(|e| e.ok())
        .filter_map(|e| e.file_name().into_string().ok())
        .filter(|n| n.starts_with("p_") && n.ends_with(".rs"))
        .map(|n| n.trim_end_matches(".rs").to_string())
        .collect();
    names.sort();
    let mut out = String::new();
    let src = fs::canonicalize("src").unwrap();
    for n in &names {
        out.push_str(&format!("#[path = \"{}/{}.rs\"]\npub mod {};\n", src.display(), n, n));
    }
    out.push_str("pub fn dispatch(mode: &str) -> Option<fn(&str) -> String> {\n");
    for n in &names {
        out.push_str(&format!("    if let Some(f) = {}::dispatch(mode) {{ return Some(f); }}\n", n));
    }
    out.push_str("    None\n}\n");
    out.push_str("pub fn special(mode: &str) -> bool {\n");
    for n in &names {
        out.push_str(&format!("    if {}::special(mode) {{ return true; }}\n", n));
    }
    out.push_str("    false\n}\n");
    let dest = Path::new(&env::var("OUT_DIR").unwrap()).join("mods.rs");
    fs::write(dest, out).unwrap();
    println!("cargo:rerun-if-changed=src");
}
