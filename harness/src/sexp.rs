//! Minimal s-expression reader/printer: atoms are unsigned integers or bare symbols.
#[derive(Debug, Clone, PartialEq)]
pub enum Sx {
    N(u64),
    Sym(String),
    L(Vec<Sx>),
}

pub fn parse(s: &str) -> Result<Sx, String> {
    let toks = tokenize(s);
    let mut pos = 0;
    let v = parse_at(&toks, &mut pos)?;
    if pos != toks.len() {
        return Err("trailing tokens".into());
    }
    Ok(v)
}

/// Parse a whole line as a sequence of s-expressions.
pub fn parse_many(s: &str) -> Result<Vec<Sx>, String> {
    let toks = tokenize(s);
    let mut pos = 0;
    let mut out = Vec::new();
    while pos < toks.len() {
        out.push(parse_at(&toks, &mut pos)?);
    }
    Ok(out)
}

fn tokenize(s: &str) -> Vec<String> {
    let mut out = Vec::new();
    let mut cur = String::new();
    for ch in s.chars() {
        match ch {
            '(' | ')' => {
                if !cur.is_empty() {
                    out.push(std::mem::take(&mut cur));
                }
                out.push(ch.to_string());
            }
            c if c.is_whitespace() => {
                if !cur.is_empty() {
                    out.push(std::mem::take(&mut cur));
                }
            }
            c => cur.push(c),
        }
    }
    if !cur.is_empty() {
        out.push(cur);
    }
    out
}

fn parse_at(toks: &[String], pos: &mut usize) -> Result<Sx, String> {
    if *pos >= toks.len() {
        return Err("unexpected end".into());
    }
    let t = &toks[*pos];
    *pos += 1;
    if t == "(" {
        let mut items = Vec::new();
        loop {
            if *pos >= toks.len() {
                return Err("unclosed (".into());
            }
            if toks[*pos] == ")" {
                *pos += 1;
                return Ok(Sx::L(items));
            }
            items.push(parse_at(toks, pos)?);
        }
    } else if t == ")" {
        Err("unexpected )".into())
    } else if let Ok(n) = t.parse::<u64>() {
        Ok(Sx::N(n))
    } else {
        Ok(Sx::Sym(t.clone()))
    }
}

impl Sx {
    pub fn list(&self) -> &[Sx] {
        match self {
            Sx::L(v) => v,
            _ => panic!("expected list, got {:?}", self),
        }
    }
    pub fn num(&self) -> u64 {
        match self {
            Sx::N(n) => *n,
            _ => panic!("expected number, got {:?}", self),
        }
    }
    pub fn sym(&self) -> &str {
        match self {
            Sx::Sym(s) => s,
            _ => panic!("expected symbol, got {:?}", self),
        }
    }
    /// list of code points -> String (invalid scalar values become U+FFFD)
    pub fn string(&self) -> String {
        self.list()
            .iter()
            .map(|x| char::from_u32(x.num() as u32).unwrap_or('\u{fffd}'))
            .collect()
    }
    /// list of bytes -> Vec<u8>
    pub fn bytes(&self) -> Vec<u8> {
        self.list().iter().map(|x| x.num() as u8).collect()
    }
    pub fn show(&self) -> String {
        match self {
            Sx::N(n) => n.to_string(),
            Sx::Sym(s) => s.clone(),
            Sx::L(v) => {
                let mut s = String::from("(");
                for (i, x) in v.iter().enumerate() {
                    if i > 0 {
                        s.push(' ');
                    }
                    s.push_str(&x.show());
                }
                s.push(')');
                s
            }
        }
    }
}

pub fn cps(s: &str) -> Sx {
    Sx::L(s.chars().map(|c| Sx::N(c as u64)).collect())
}
pub fn byte_list(b: &[u8]) -> Sx {
    Sx::L(b.iter().map(|c| Sx::N(*c as u64)).collect())
}
pub fn sym(s: &str) -> Sx {
    Sx::Sym(s.to_string())
}
