//! C08 — secret scanner / masker, in-process against the real functions of
//! git_ai::authorship::secrets (all public: no /repo hook needed).
//! Texts travel as lists of UTF-8 BYTES.  Every result that involves the entropy classifier also
//! carries the classifier's verdict for every candidate token (`cands`), which the model takes as
//! its `is_random` parameter.
use crate::sexp::{self, byte_list, sym, Sx};
use git_ai::authorship::authorship_log::PromptRecord;
use git_ai::authorship::secrets::{
    extract_tokens, is_random, redact_secret, redact_secrets_from_prompts, redact_secrets_in_text,
    strip_prompt_messages,
};
use git_ai::authorship::transcript::Message;
use git_ai::authorship::working_log::AgentId;
use std::collections::BTreeMap;

fn text_of(x: &Sx) -> String {
    String::from_utf8(x.bytes()).expect("case text is not valid UTF-8")
}

fn cands_of(text: &str, out: &mut Vec<Sx>) {
    for (a, b) in extract_tokens(text) {
        let t = &text.as_bytes()[a..b];
        out.push(Sx::L(vec![byte_list(t), Sx::N(is_random(t) as u64)]));
    }
}

/// in: TEXT   out: ((a b) ...)
pub fn tokens(body: &str) -> String {
    let x = sexp::parse(body).expect("sexp");
    let text = text_of(&x);
    Sx::L(extract_tokens(&text)
        .into_iter()
        .map(|(a, b)| Sx::L(vec![Sx::N(a as u64), Sx::N(b as u64)]))
        .collect())
    .show()
}

/// in: TEXT   out: (ok BYTES n) (cands ((BYTES) 0|1) ...)
pub fn redact(body: &str) -> String {
    let x = sexp::parse(body).expect("sexp");
    let text = text_of(&x);
    let (out, n) = redact_secrets_in_text(&text);
    let mut c = vec![sym("cands")];
    cands_of(&text, &mut c);
    format!(
        "{} {}",
        Sx::L(vec![sym("ok"), byte_list(out.as_bytes()), Sx::N(n as u64)]).show(),
        Sx::L(c).show()
    )
}

/// in: TOKEN   out: (ok BYTES)        (a panic is reported as `panic` by main)
pub fn secret(body: &str) -> String {
    let x = sexp::parse(body).expect("sexp");
    let t = text_of(&x);
    Sx::L(vec![sym("ok"), byte_list(redact_secret(&t).as_bytes())]).show()
}

/// in: TOKEN   out: 0|1
pub fn isrand(body: &str) -> String {
    let x = sexp::parse(body).expect("sexp");
    (is_random(&x.bytes()) as u64).to_string()
}

fn msg_of(m: &Sx) -> Message {
    let l = m.list();
    match l[0].sym() {
        "u" => Message::User { text: text_of(&l[1]), timestamp: None },
        "a" => Message::Assistant { text: text_of(&l[1]), timestamp: Some("2024-01-01T00:00:00Z".into()) },
        "t" => Message::Thinking { text: text_of(&l[1]), timestamp: None },
        "p" => Message::Plan { text: text_of(&l[1]), timestamp: None },
        // (x NAME JSON-TEXT): the tool input is an arbitrary JSON value
        _ => Message::ToolUse {
            name: text_of(&l[1]),
            input: serde_json::from_str(&text_of(&l[2])).expect("tool input is not JSON"),
            timestamp: None,
        },
    }
}

fn take_leaves(v: &mut serde_json::Value, out: &mut Vec<String>) {
    match v {
        serde_json::Value::String(s) => out.push(std::mem::take(s)),
        serde_json::Value::Array(a) => a.iter_mut().for_each(|x| take_leaves(x, out)),
        serde_json::Value::Object(m) => m.values_mut().for_each(|x| take_leaves(x, out)),
        _ => {}
    }
}

fn show_msg(m: &Message) -> Sx {
    match m {
        Message::User { text, .. } => Sx::L(vec![sym("u"), byte_list(text.as_bytes())]),
        Message::Assistant { text, .. } => Sx::L(vec![sym("a"), byte_list(text.as_bytes())]),
        Message::Thinking { text, .. } => Sx::L(vec![sym("t"), byte_list(text.as_bytes())]),
        Message::Plan { text, .. } => Sx::L(vec![sym("p"), byte_list(text.as_bytes())]),
        // (x NAME SHAPE (LEAF ...)): the string leaves in document order, and the value with every string
        // leaf emptied (keys, numbers, nesting) printed compactly
        Message::ToolUse { name, input, .. } => {
            let mut leaves = Vec::new();
            let mut shape = input.clone();
            take_leaves(&mut shape, &mut leaves);
            Sx::L(vec![
                sym("x"),
                byte_list(name.as_bytes()),
                byte_list(shape.to_string().as_bytes()),
                Sx::L(leaves.iter().map(|s| byte_list(s.as_bytes())).collect()),
            ])
        }
    }
}

/// in: ((ID (MSG ...)) ...)   out: (ok ((MSG ...) ...) total) (cands ...) (strip remaining_messages)
pub fn prompts(body: &str) -> String {
    let x = sexp::parse(body).expect("sexp");
    let mut map: BTreeMap<String, PromptRecord> = BTreeMap::new();
    let mut c = vec![sym("cands")];
    for p in x.list() {
        let l = p.list();
        let msgs: Vec<Message> = l[1].list().iter().map(msg_of).collect();
        for m in &msgs {
            if let Some(t) = m.text() {
                cands_of(t, &mut c);
            }
            if let Message::ToolUse { input, .. } = m {
                let mut leaves = Vec::new();
                take_leaves(&mut input.clone(), &mut leaves);
                for t in &leaves {
                    cands_of(t, &mut c);
                }
            }
        }
        map.insert(
            text_of(&l[0]),
            PromptRecord {
                agent_id: AgentId { tool: "toolx".into(), id: "s".into(), model: "m".into() },
                human_author: None,
                messages: msgs,
                total_additions: 0,
                total_deletions: 0,
                accepted_lines: 0,
                overriden_lines: 0,
                messages_url: None,
            },
        );
    }
    let mut stripped = map.clone();
    let total = redact_secrets_from_prompts(&mut map);
    strip_prompt_messages(&mut stripped);
    let remaining: usize = stripped.values().map(|r| r.messages.len()).sum();
    let out: Vec<Sx> = map.values().map(|r| Sx::L(r.messages.iter().map(show_msg).collect())).collect();
    format!(
        "{} {} {}",
        Sx::L(vec![sym("ok"), Sx::L(out), Sx::N(total as u64)]).show(),
        Sx::L(c).show(),
        Sx::L(vec![sym("strip"), Sx::N(remaining as u64)]).show()
    )
}

/// Which byte values does the scanner treat as secret characters?  Decided through the public
/// extract_tokens: 15 copies of a character form a candidate token iff all its bytes are secret chars.
/// ASCII exhaustively; every 2-byte character; 3- and 4-byte characters covering every lead byte and
/// every continuation byte value.  (0xC0, 0xC1, 0xF5..0xFF never occur in a &str.)
fn seccharset() {
    let mut secret = [false; 256];
    let mut seen = [false; 256];
    let mut probe = |ch: char| {
        let s: String = std::iter::repeat(ch).take(15).collect();
        let is_tok = !extract_tokens(&s).is_empty();
        let mut buf = [0u8; 4];
        for b in ch.encode_utf8(&mut buf).as_bytes() {
            seen[*b as usize] = true;
            if is_tok {
                secret[*b as usize] = true;
            }
        }
    };
    for c in 0u32..0x800 {
        if let Some(ch) = char::from_u32(c) {
            probe(ch);
        }
    }
    let mut c = 0x800u32;
    while c < 0x110000 {
        if let Some(ch) = char::from_u32(c) {
            probe(ch);
        }
        c += 0x3f; // walks through every continuation value and every lead byte
    }
    let s: Vec<String> = (0..256).filter(|b| secret[*b]).map(|b| b.to_string()).collect();
    let n: Vec<String> = (0..256).filter(|b| !seen[*b]).map(|b| b.to_string()).collect();
    println!("secret {}", s.join(" "));
    println!("unseen {}", n.join(" "));
}

pub fn dispatch(mode: &str) -> Option<fn(&str) -> String> {
    match mode {
        "c08-tokens" => Some(tokens),
        "c08-redact" => Some(redact),
        "c08-secret" => Some(secret),
        "c08-isrand" => Some(isrand),
        "c08-prompts" => Some(prompts),
        _ => None,
    }
}

pub fn special(mode: &str) -> bool {
    if mode == "c08-seccharset" {
        seccharset();
        return true;
    }
    false
}
