use crate::sexp::{self, Sx, cps, sym};
use std::io::Write;
use git_ai::authorship::authorship_log::{LineRange, PromptRecord};
use git_ai::authorship::authorship_log_serialization::{
    AttestationEntry, AuthorshipLog, AuthorshipMetadata, FileAttestation,
};
use git_ai::authorship::transcript::Message;
use git_ai::authorship::working_log::AgentId;

fn range_of(x: &Sx) -> LineRange {
    let l = x.list();
    match l[0].sym() {
        "s" => LineRange::Single(l[1].num() as u32),
        _ => LineRange::Range(l[1].num() as u32, l[2].num() as u32),
    }
}

fn atts_of(x: &Sx) -> Vec<FileAttestation> {
    x.list()
        .iter()
        .map(|f| {
            let fl = f.list();
            FileAttestation {
                file_path: fl[0].string(),
                entries: fl[1..]
                    .iter()
                    .map(|e| {
                        let el = e.list();
                        AttestationEntry::new(el[0].string(), el[1..].iter().map(range_of).collect())
                    })
                    .collect(),
            }
        })
        .collect()
}

pub fn show_atts(a: &[FileAttestation]) -> Sx {
    Sx::L(a
        .iter()
        .map(|f| {
            let mut v = vec![cps(&f.file_path)];
            for e in &f.entries {
                let mut ev = vec![cps(&e.hash)];
                for r in &e.line_ranges {
                    ev.push(match r {
                        LineRange::Single(l) => Sx::L(vec![sym("s"), Sx::N(*l as u64)]),
                        LineRange::Range(a, b) => Sx::L(vec![sym("r"), Sx::N(*a as u64), Sx::N(*b as u64)]),
                    });
                }
                v.push(Sx::L(ev));
            }
            Sx::L(v)
        })
        .collect())
}

fn prompts_of(x: &Sx, md: &mut AuthorshipMetadata) {
    for p in x.list() {
        let l = p.list();
        let msgs: Vec<Message> = l[4]
            .list()
            .iter()
            .map(|m| {
                let ml = m.list();
                let text = ml[1].string();
                match ml[0].sym() {
                    "u" => Message::User { text, timestamp: None },
                    "a" => Message::Assistant { text, timestamp: Some("2024-01-01T00:00:00Z".into()) },
                    "t" => Message::Thinking { text, timestamp: None },
                    "p" => Message::Plan { text, timestamp: None },
                    _ => Message::ToolUse {
                        name: "tool".into(),
                        input: serde_json::json!({ "arg": text }),
                        timestamp: None,
                    },
                }
            })
            .collect();
        md.prompts.insert(
            l[0].string(),
            PromptRecord {
                agent_id: AgentId { tool: l[1].string(), id: l[2].string(), model: l[3].string() },
                human_author: if l[5].num() % 2 == 0 { None } else { Some(l[1].string()) },
                messages: msgs,
                total_additions: l[5].num() as u32,
                total_deletions: l[6].num() as u32,
                accepted_lines: l[7].num() as u32,
                overriden_lines: l[8].num() as u32,
                messages_url: None,
            },
        );
    }
}

/// in: ATTS PROMPTS BASE   out: (ser CPS) (md CPS) RES (meta 0|1)
pub fn roundtrip(body: &str) -> String {
    let xs = sexp::parse_many(body).expect("sexp");
    let mut log = AuthorshipLog::new();
    log.attestations = atts_of(&xs[0]);
    prompts_of(&xs[1], &mut log.metadata);
    log.metadata.base_commit_sha = xs[2].string();
    let ser = log.serialize_to_string().expect("serialize");
    let md = serde_json::to_string_pretty(&log.metadata).expect("md");
    let back = std::panic::catch_unwind(|| AuthorshipLog::deserialize_from_string(&ser).ok());
    let (res, meta_same) = match back {
        Err(_) => (sym("panic"), 0),
        Ok(None) => (sym("err"), 0),
        Ok(Some(l)) => (
            Sx::L(vec![sym("ok"), show_atts(&l.attestations)]),
            (l.metadata == log.metadata) as u64,
        ),
    };
    format!(
        "{} {} {} {}",
        Sx::L(vec![sym("ser"), cps(&ser)]).show(),
        Sx::L(vec![sym("md"), cps(&md)]).show(),
        res.show(),
        Sx::L(vec![sym("meta"), Sx::N(meta_same)]).show()
    )
}

/// in: TEXT    out: (ok ATTS) | err
pub fn deserialize(body: &str) -> String {
    let x = sexp::parse(body).expect("sexp");
    let text = x.string();
    match AuthorshipLog::deserialize_from_string(&text) {
        Ok(l) => Sx::L(vec![sym("ok"), show_atts(&l.attestations)]).show(),
        Err(_) => "err".to_string(),
    }
}

/// in: TEXT    out: ok | err    (does serde accept this metadata object?)
pub fn md_parse(body: &str) -> String {
    let x = sexp::parse(body).expect("sexp");
    match serde_json::from_str::<AuthorshipMetadata>(&x.string()) {
        Ok(_) => "ok".into(),
        Err(_) => "err".into(),
    }
}

pub fn dispatch(mode: &str) -> Option<fn(&str) -> String> {
    match mode {
        "c17-rt" => Some(roundtrip),
        "c17-de" => Some(deserialize),
        "c17-md" => Some(md_parse),
        _ => None,
    }
}

/// modes that do not read cases
pub fn special(mode: &str) -> bool {
    if mode == "ws-table" {
        // exhaustive table of char::is_whitespace over all scalar values
        let out = std::io::stdout();
        let mut out = out.lock();
        for c in 0u32..0x110000 {
            if let Some(ch) = char::from_u32(c) {
                if ch.is_whitespace() {
                    writeln!(out, "{}", c).unwrap();
                }
            }
        }
        return true;
    }
    false
}
