//! C12 — the internal-git profile machinery, called in-process.
//! Real functions: first_git_subcommand_index, strip_profile_conflicts, profile_options,
//! args_with_internal_git_profile, args_with_disabled_hooks_if_needed (verif shims in
//! src/git/repository.rs), find_repository + Repository::global_args_for_exec (normalisation of global args).
use crate::sexp::{self, cps, sym, Sx};
use git_ai::git::repository::{
    disable_internal_git_hooks, find_repository, verif_args_with_disabled_hooks_if_needed,
    verif_args_with_internal_git_profile, verif_first_git_subcommand_index, verif_profile_options,
    verif_strip_profile_conflicts, InternalGitProfile,
};

fn strs_of(x: &Sx) -> Vec<String> {
    x.list().iter().map(|t| t.string()).collect()
}

fn show_strs(v: &[String]) -> Sx {
    Sx::L(v.iter().map(|s| cps(s)).collect())
}

fn profile_of(n: u64) -> InternalGitProfile {
    match n {
        1 => InternalGitProfile::PatchParse,
        2 => InternalGitProfile::NumstatParse,
        3 => InternalGitProfile::RawDiffParse,
        _ => InternalGitProfile::General,
    }
}

fn num(x: &Sx) -> u64 {
    match x {
        Sx::N(n) => *n,
        _ => panic!("number expected"),
    }
}

/// in: PROFILE ARGV   out: (idx none|N) (strip ..) (awp ..)
pub fn profile(body: &str) -> String {
    let xs = sexp::parse_many(body).expect("sexp");
    let p = profile_of(num(&xs[0]));
    let argv = strs_of(&xs[1]);
    let idx = match verif_first_git_subcommand_index(&argv) {
        None => sym("none"),
        Some(i) => Sx::N(i as u64),
    };
    let strip = verif_strip_profile_conflicts(argv.clone(), p);
    let awp = verif_args_with_internal_git_profile(&argv, p);
    [
        Sx::L(vec![sym("idx"), idx]),
        Sx::L(vec![sym("strip"), show_strs(&strip)]),
        Sx::L(vec![sym("awp"), show_strs(&awp)]),
    ]
    .iter()
    .map(|x| x.show())
    .collect::<Vec<_>>()
    .join(" ")
}

/// in: DISABLED(0|1) PROFILE ARGV   out: the argv exec_git_with_profile hands to git
pub fn effective_args(body: &str) -> String {
    let xs = sexp::parse_many(body).expect("sexp");
    let disabled = num(&xs[0]) != 0;
    let p = profile_of(num(&xs[1]));
    let argv = strs_of(&xs[2]);
    let with_hooks = if disabled {
        let _guard = disable_internal_git_hooks();
        verif_args_with_disabled_hooks_if_needed(&argv)
    } else {
        verif_args_with_disabled_hooks_if_needed(&argv)
    };
    show_strs(&verif_args_with_internal_git_profile(&with_hooks, p)).show()
}

/// in: PROFILE   out: the pinned options
pub fn pins(body: &str) -> String {
    let xs = sexp::parse_many(body).expect("sexp");
    let p = profile_of(num(&xs[0]));
    let v: Vec<String> = verif_profile_options(p).iter().map(|s| s.to_string()).collect();
    show_strs(&v).show()
}

/// in: CWD GLOBAL_ARGS   out: err | (ok ARGV)  — find_repository started in CWD, then global_args_for_exec
pub fn normalize(body: &str) -> String {
    let xs = sexp::parse_many(body).expect("sexp");
    let cwd = xs[0].string();
    let ga = strs_of(&xs[1]);
    std::env::set_current_dir(&cwd).expect("chdir");
    match find_repository(&ga) {
        Ok(repo) => Sx::L(vec![sym("ok"), show_strs(&repo.global_args_for_exec())]).show(),
        Err(_) => "err".to_string(),
    }
}

pub fn dispatch(mode: &str) -> Option<fn(&str) -> String> {
    match mode {
        "c12-profile" => Some(profile),
        "c12-effective-args" => Some(effective_args),
        "c12-pins" => Some(pins),
        "c12-normalize" => Some(normalize),
        _ => None,
    }
}

pub fn special(_mode: &str) -> bool {
    false
}
