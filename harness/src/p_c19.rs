//! C19 — commit statistics.  In-process calls of the real functions of src/authorship/stats.rs.
use crate::sexp::{self, Sx, cps, sym};
use git_ai::authorship::authorship_log::{LineRange, PromptRecord};
use git_ai::authorship::authorship_log_serialization::{AttestationEntry, AuthorshipLog, FileAttestation};
use git_ai::authorship::ignore::{build_ignore_matcher, should_ignore_file_with_matcher};
use git_ai::authorship::stats::{
    CommitStats, get_git_diff_stats, stats_from_authorship_log, verif_accepted_lines_from_attestations,
    verif_line_range_overlap_len,
};
use git_ai::authorship::working_log::AgentId;
use git_ai::git::repository::{Repository, find_repository_in_path};
use std::collections::HashMap;
use std::sync::OnceLock;

fn range_of(x: &Sx) -> LineRange {
    let l = x.list();
    match l[0].sym() {
        "s" => LineRange::Single(l[1].num() as u32),
        _ => LineRange::Range(l[1].num() as u32, l[2].num() as u32),
    }
}

/// NOTE = none | (ATTS PROMPTS)
fn note_of(x: &Sx) -> Option<AuthorshipLog> {
    if let Sx::Sym(s) = x {
        assert_eq!(s, "none");
        return None;
    }
    let l = x.list();
    let mut log = AuthorshipLog::new();
    log.attestations = l[0]
        .list()
        .iter()
        .map(|f| {
            let fl = f.list();
            FileAttestation {
                file_path: fl[0].string(),
                entries: fl[1..]
                    .iter()
                    .map(|e| {
                        let el = e.list();
                        AttestationEntry::new(el[0].string(), el[1..].iter().map(range_of).collect())
                    })
                    .collect(),
            }
        })
        .collect();
    for p in l[1].list() {
        let q = p.list();
        log.metadata.prompts.insert(
            q[0].string(),
            PromptRecord {
                agent_id: AgentId { tool: q[1].string(), id: "sid".to_string(), model: q[2].string() },
                human_author: None,
                messages: vec![],
                total_additions: q[3].num() as u32,
                total_deletions: q[4].num() as u32,
                accepted_lines: q[5].num() as u32,
                overriden_lines: q[6].num() as u32,
                messages_url: None,
            },
        );
    }
    Some(log)
}

fn show_stats(s: &CommitStats) -> Sx {
    let tools = s
        .tool_model_breakdown
        .iter()
        .map(|(k, t)| {
            Sx::L(vec![
                cps(k),
                Sx::N(t.ai_additions as u64),
                Sx::N(t.mixed_additions as u64),
                Sx::N(t.ai_accepted as u64),
                Sx::N(t.total_ai_additions as u64),
                Sx::N(t.total_ai_deletions as u64),
            ])
        })
        .collect();
    Sx::L(vec![
        sym("ok"),
        Sx::N(s.human_additions as u64),
        Sx::N(s.mixed_additions as u64),
        Sx::N(s.ai_additions as u64),
        Sx::N(s.ai_accepted as u64),
        Sx::N(s.total_ai_additions as u64),
        Sx::N(s.total_ai_deletions as u64),
        Sx::N(s.git_diff_deleted_lines as u64),
        Sx::N(s.git_diff_added_lines as u64),
        Sx::L(tools),
    ])
}

fn patterns_of(x: &Sx) -> Vec<String> {
    x.list().iter().map(|p| p.string()).collect()
}

/// in: NOTE ADDED MERGE GA GD PATTERNS      ADDED = ((PATH (l...))...)
/// out: (ign (PATH)...) RES        RES = (ok ...) ; a panic is reported by main as `panic`
/// Steps 3-5 of stats_for_commit_stats on given data: retain non-ignored, sort_unstable, dedup,
/// accepted_lines_from_attestations, stats_from_authorship_log.
pub fn stats_case(body: &str) -> String {
    let xs = sexp::parse_many(body).expect("sexp");
    let log = note_of(&xs[0]);
    let is_merge = xs[2].num() == 1;
    let ga = xs[3].num() as u32;
    let gd = xs[4].num() as u32;
    let patterns = patterns_of(&xs[5]);
    let matcher = build_ignore_matcher(&patterns);
    let mut ign: Vec<String> = Vec::new();
    let mut added: HashMap<String, Vec<u32>> = HashMap::new();
    for f in xs[1].list() {
        let fl = f.list();
        let p = fl[0].string();
        if should_ignore_file_with_matcher(&p, &matcher) && !ign.contains(&p) {
            ign.push(p.clone());
        }
        if !is_merge {
            added.insert(p, fl[1].list().iter().map(|n| n.num() as u32).collect());
        }
    }
    if let Some(l) = &log {
        for fa in &l.attestations {
            if should_ignore_file_with_matcher(&fa.file_path, &matcher) && !ign.contains(&fa.file_path) {
                ign.push(fa.file_path.clone());
            }
        }
    }
    let ign_s = {
        let mut v = vec![sym("ign")];
        v.extend(ign.iter().map(|p| cps(p)));
        Sx::L(v).show()
    };
    let res = std::panic::catch_unwind(move || {
        added.retain(|file_path, _| !should_ignore_file_with_matcher(file_path, &matcher));
        for lines in added.values_mut() {
            lines.sort_unstable();
            lines.dedup();
        }
        let (acc, by_tool) = verif_accepted_lines_from_attestations(log.as_ref(), &added, is_merge);
        let s = stats_from_authorship_log(log.as_ref(), ga, gd, acc, &by_tool);
        show_stats(&s).show()
    })
    .unwrap_or_else(|_| "panic".to_string());
    format!("{} {}", ign_s, res)
}

/// in: RANGE (l...)    out: n      (the list is used as given: the caller must pass a sorted list)
pub fn overlap_case(body: &str) -> String {
    let xs = sexp::parse_many(body).expect("sexp");
    let r = range_of(&xs[0]);
    let ls: Vec<u32> = xs[1].list().iter().map(|n| n.num() as u32).collect();
    verif_line_range_overlap_len(&r, &ls).to_string()
}

/// in: (PATH...) PATTERNS    out: (ign (PATH)...)  -- the ignored ones
pub fn ignore_case(body: &str) -> String {
    let xs = sexp::parse_many(body).expect("sexp");
    let matcher = build_ignore_matcher(&patterns_of(&xs[1]));
    let mut v = vec![sym("ign")];
    for p in xs[0].list() {
        let s = p.string();
        if should_ignore_file_with_matcher(&s, &matcher) {
            v.push(cps(&s));
        }
    }
    Sx::L(v).show()
}

static REPO: OnceLock<Repository> = OnceLock::new();
static NSFILE: OnceLock<String> = OnceLock::new();

/// in: TEXT (CAND...) PATTERNS    out: (ign (PATH)...) (ok A D) | err
/// Calls the real get_git_diff_stats on the repository $C19_REPO.  The process must run with a
/// HOME whose .git-ai/config.json points git_path at a script that answers `show --numstat`
/// with the content of $C19_NS_FILE (set here, one file per process) and passes everything
/// else to the real git.
pub fn numstat_case(body: &str) -> String {
    let xs = sexp::parse_many(body).expect("sexp");
    let text = xs[0].string();
    let patterns = patterns_of(&xs[2]);
    let matcher = build_ignore_matcher(&patterns);
    let mut v = vec![sym("ign")];
    for p in xs[1].list() {
        let s = p.string();
        if should_ignore_file_with_matcher(&s, &matcher) {
            v.push(cps(&s));
        }
    }
    let nsfile = NSFILE.get_or_init(|| {
        let dir = std::env::var("C19_DIR").expect("C19_DIR");
        let p = format!("{}/ns.{}", dir, std::process::id());
        // single-threaded at this point: the case loop is sequential
        unsafe { std::env::set_var("C19_NS_FILE", &p) };
        p
    });
    let repo = REPO.get_or_init(|| {
        find_repository_in_path(&std::env::var("C19_REPO").expect("C19_REPO")).expect("repo")
    });
    std::fs::write(nsfile, text.as_bytes()).expect("write numstat file");
    let res = match std::panic::catch_unwind(|| get_git_diff_stats(repo, "HEAD", &patterns)) {
        Err(_) => "panic".to_string(),
        Ok(Ok((a, d))) => format!("(ok {} {})", a, d),
        Ok(Err(_)) => "err".to_string(),
    };
    format!("{} {}", Sx::L(v).show(), res)
}

pub fn dispatch(mode: &str) -> Option<fn(&str) -> String> {
    match mode {
        "c19-stats" => Some(stats_case),
        "c19-overlap" => Some(overlap_case),
        "c19-ignore" => Some(ignore_case),
        "c19-numstat" => Some(numstat_case),
        _ => None,
    }
}

pub fn special(_mode: &str) -> bool {
    false
}
