//! C15 — in-process side: the comparator's real scanning loop on a given diff-tree output
//! (hook verif_tracked_paths_match_on_output) and the real base_commit_sha rewrite.
use crate::sexp::{self, byte_list, cps, sym, Sx};
use git_ai::authorship::authorship_log_serialization::AuthorshipLog;
use git_ai::authorship::rebase_authorship::{
    verif_load_commit_metadata_batch, verif_remap_note_content_for_target_commit,
    verif_tracked_paths_match_on_output, verif_try_remap_base_commit_sha_field,
};
use git_ai::git::repository::{find_repository_in_path, Repository};
use std::cell::RefCell;

thread_local! {
    static REPO: RefCell<Option<(Repository, String)>> = const { RefCell::new(None) };
}

fn bytes_of(x: &Sx) -> Vec<u8> {
    x.list().iter().map(|c| c.num() as u8).collect()
}

fn with_repo<T>(f: impl FnOnce(&Repository, &str) -> T) -> T {
    REPO.with(|cell| {
        let mut slot = cell.borrow_mut();
        if slot.is_none() {
            let path = std::env::var("C15_REPO").expect("C15_REPO");
            let repo = find_repository_in_path(&path).expect("repo");
            let head = std::env::var("C15_HEAD").expect("C15_HEAD");
            *slot = Some((repo, head));
        }
        let (repo, head) = slot.as_ref().unwrap();
        f(repo, head)
    })
}

/// in: OUT NPAIRS     out: 1 | 0 | err
/// The loop under test only uses the number of pairs; every pair is (HEAD, HEAD) of the scratch
/// repository named by $C15_REPO (the trees must resolve, git's own output is replaced by OUT).
pub fn cmp(body: &str) -> String {
    let xs = sexp::parse_many(body).expect("sexp");
    let out = bytes_of(&xs[0]);
    let n = xs[1].num() as usize;
    with_repo(|repo, head| {
        let pairs: Vec<(String, String)> = (0..n).map(|_| (head.to_string(), head.to_string())).collect();
        let tracked = vec!["tracked".to_string()];
        match verif_tracked_paths_match_on_output(repo, &pairs, &tracked, out) {
            Ok(true) => "1".to_string(),
            Ok(false) => "0".to_string(),
            Err(_) => "err".to_string(),
        }
    })
}

/// in: NOTE TARGET (bytes, valid UTF-8)
/// out: (try none|(some BYTES)) (full BYTES) (de ok|err (base BYTES) (paths (BYTES)...))
pub fn remap(body: &str) -> String {
    let xs = sexp::parse_many(body).expect("sexp");
    let note = String::from_utf8(bytes_of(&xs[0])).expect("utf8 note");
    let target = String::from_utf8(bytes_of(&xs[1])).expect("utf8 target");
    let t = match verif_try_remap_base_commit_sha_field(&note, &target) {
        Some(s) => Sx::L(vec![sym("some"), byte_list(s.as_bytes())]),
        None => sym("none"),
    };
    let full = verif_remap_note_content_for_target_commit(&note, &target);
    let de = match AuthorshipLog::deserialize_from_string(&full) {
        Ok(l) => Sx::L(vec![
            sym("ok"),
            Sx::L(vec![sym("base"), byte_list(l.metadata.base_commit_sha.as_bytes())]),
            Sx::L(
                std::iter::once(sym("paths"))
                    .chain(l.attestations.iter().map(|a| byte_list(a.file_path.as_bytes())))
                    .collect(),
            ),
        ]),
        Err(_) => sym("err"),
    };
    format!(
        "{} {} {}",
        Sx::L(vec![sym("try"), t]).show(),
        Sx::L(vec![sym("full"), byte_list(full.as_bytes())]).show(),
        Sx::L(vec![sym("de"), de]).show()
    )
}

/// in: PATHS (list of byte strings) BASE     out: (note BYTES)    — a real serialised note
pub fn mknote(body: &str) -> String {
    use git_ai::authorship::authorship_log::LineRange;
    use git_ai::authorship::authorship_log_serialization::{AttestationEntry, FileAttestation};
    let xs = sexp::parse_many(body).expect("sexp");
    let mut log = AuthorshipLog::new();
    for (i, p) in xs[0].list().iter().enumerate() {
        log.attestations.push(FileAttestation {
            file_path: String::from_utf8(bytes_of(p)).expect("utf8"),
            entries: vec![AttestationEntry::new(
                "abcd0123abcd0123".to_string(),
                vec![LineRange::Range(1 + i as u32, 3 + i as u32)],
            )],
        });
    }
    log.metadata.base_commit_sha = String::from_utf8(bytes_of(&xs[1])).expect("utf8");
    let s = log.serialize_to_string().expect("ser");
    Sx::L(vec![sym("note"), byte_list(s.as_bytes())]).show()
}

/// in: (CONTENT ...)  commit objects as code points.  Each is written into the scratch repository
/// ($C15_REPO) with `git hash-object -t commit -w --stdin --literally`; then ONE call of the real
/// load_commit_metadata_batch for all of them.   out: ((tree (parent)?) ...) in input order | err
pub fn meta(body: &str) -> String {
    use std::io::Write;
    use std::process::{Command, Stdio};
    let xs = sexp::parse_many(body).expect("sexp");
    let repo_path = std::env::var("C15_REPO").expect("C15_REPO");
    let mut shas = Vec::new();
    for c in xs[0].list() {
        let text = c.string();
        let mut child = Command::new("/usr/bin/git")
            .args(["-C", &repo_path, "hash-object", "-t", "commit", "-w", "--stdin", "--literally"])
            .stdin(Stdio::piped())
            .stdout(Stdio::piped())
            .stderr(Stdio::null())
            .spawn()
            .expect("git");
        child.stdin.take().unwrap().write_all(text.as_bytes()).unwrap();
        let out = child.wait_with_output().expect("git");
        let sha = String::from_utf8_lossy(&out.stdout).trim().to_string();
        assert!(sha.len() >= 40, "hash-object failed");
        shas.push(sha);
    }
    with_repo(|repo, _| match verif_load_commit_metadata_batch(repo, &shas) {
        Err(_) => "err".to_string(),
        Ok(v) => Sx::L(
            shas.iter()
                .map(|sha| match v.iter().find(|(s, _, _)| s == sha) {
                    None => sym("absent"),
                    Some((_, t, p)) => Sx::L(vec![
                        cps(t),
                        match p {
                            None => Sx::L(vec![]),
                            Some(q) => Sx::L(vec![cps(q)]),
                        },
                    ]),
                })
                .collect(),
        )
        .show(),
    })
}

pub fn dispatch(mode: &str) -> Option<fn(&str) -> String> {
    match mode {
        "c15-cmp" => Some(cmp),
        "c15-remap" => Some(remap),
        "c15-mknote" => Some(mknote),
        "c15-meta" => Some(meta),
        _ => None,
    }
}

pub fn special(_mode: &str) -> bool {
    false
}
