//! C18 — the proxy hands git exactly the arguments the user typed.
//! In-process calls of the real `parse_git_cli_args`, `ParsedGitInvocation::to_invocation_vec`,
//! `parse_alias_tokens` (verif shim) and `resolve_alias_invocation` (pub under `test-support`;
//! it only forwards to the private `resolve_alias_impl`).
use crate::sexp::{self, cps, sym, Sx};
use git_ai::commands::git_handlers::{resolve_alias_invocation, verif_parse_alias_tokens};
use git_ai::git::cli_parser::{parse_git_cli_args, ParsedGitInvocation};
use git_ai::git::repository::{find_repository_in_path, Repository};
use std::cell::RefCell;
use std::path::PathBuf;

fn strs_of(x: &Sx) -> Vec<String> {
    x.list().iter().map(|t| t.string()).collect()
}

fn show_strs(v: &[String]) -> Sx {
    Sx::L(v.iter().map(|s| cps(s)).collect())
}

/// canonical text of a parsed invocation; the same text is printed by coq/Extract/d_cli.ml
fn show_parsed(p: &ParsedGitInvocation) -> String {
    let cmd = match &p.command {
        None => sym("none"),
        Some(c) => Sx::L(vec![sym("some"), cps(c)]),
    };
    [
        Sx::L(vec![sym("g"), show_strs(&p.global_args)]),
        Sx::L(vec![sym("cmd"), cmd]),
        Sx::L(vec![sym("args"), show_strs(&p.command_args)]),
        Sx::L(vec![sym("dd"), Sx::N(p.saw_end_of_opts as u64)]),
        Sx::L(vec![sym("help"), Sx::N(p.is_help as u64)]),
        Sx::L(vec![sym("vec"), show_strs(&p.to_invocation_vec())]),
    ]
    .iter()
    .map(|x| x.show())
    .collect::<Vec<_>>()
    .join(" ")
}

/// in: ARGV   out: (g ..) (cmd ..) (args ..) (dd b) (help b) (vec ..)
pub fn parse(body: &str) -> String {
    let x = sexp::parse(body).expect("sexp");
    show_parsed(&parse_git_cli_args(&strs_of(&x)))
}

/// in: CPS   out: none | (some (TOK...))
pub fn alias_tokens(body: &str) -> String {
    let x = sexp::parse(body).expect("sexp");
    match verif_parse_alias_tokens(&x.string()) {
        None => "none".into(),
        Some(ts) => Sx::L(vec![sym("some"), show_strs(&ts)]).show(),
    }
}

thread_local! {
    static REPO: RefCell<Option<(PathBuf, Repository)>> = const { RefCell::new(None) };
}

/// `[alias]` section with every value double-quoted (git config file syntax)
fn config_text(tbl: &[(String, String)]) -> String {
    let mut s = String::from("[core]\n\trepositoryformatversion = 0\n\tbare = false\n[alias]\n");
    for (n, v) in tbl {
        s.push('\t');
        s.push_str(n);
        s.push_str(" = \"");
        for ch in v.chars() {
            match ch {
                '\\' => s.push_str("\\\\"),
                '"' => s.push_str("\\\""),
                '\n' => s.push_str("\\n"),
                '\t' => s.push_str("\\t"),
                c => s.push(c),
            }
        }
        s.push_str("\"\n");
    }
    s
}

/// in: DIR ((NAME VALUE)...) ARGV   out: none | parsed record
/// DIR is a scratch directory; one repository per harness process is created below it, HOME and
/// the global/system git configuration are pointed away from the machine's own, and the alias
/// table is written to that repository's config file before every case (the code re-reads the
/// configuration on every lookup).
pub fn resolve(body: &str) -> String {
    let xs = sexp::parse_many(body).expect("sexp");
    let dir = xs[0].string();
    let tbl: Vec<(String, String)> = xs[1]
        .list()
        .iter()
        .map(|e| (e.list()[0].string(), e.list()[1].string()))
        .collect();
    let argv = strs_of(&xs[2]);
    REPO.with(|cell| {
        let mut slot = cell.borrow_mut();
        if slot.is_none() {
            let home = PathBuf::from(&dir).join(format!("home{}", std::process::id()));
            let rp = PathBuf::from(&dir).join(format!("repo{}", std::process::id()));
            std::fs::create_dir_all(&home).expect("mkdir home");
            std::fs::write(home.join("gitconfig"), "").expect("write gitconfig");
            unsafe {
                std::env::set_var("HOME", &home);
                std::env::set_var("XDG_CONFIG_HOME", home.join("xdg"));
                std::env::set_var("GIT_CONFIG_GLOBAL", home.join("gitconfig"));
                std::env::set_var("GIT_CONFIG_NOSYSTEM", "1");
            }
            let st = std::process::Command::new("/usr/bin/git")
                .args(["init", "-q"])
                .arg(&rp)
                .status()
                .expect("git init");
            assert!(st.success());
            let repo = find_repository_in_path(rp.to_str().unwrap()).expect("find_repository");
            *slot = Some((rp, repo));
        }
        let (rp, repo) = slot.as_ref().unwrap();
        std::fs::write(rp.join(".git").join("config"), config_text(&tbl)).expect("write config");
        let parsed = parse_git_cli_args(&argv);
        match resolve_alias_invocation(&parsed, repo) {
            None => "none".to_string(),
            Some(p) => show_parsed(&p),
        }
    })
}

pub fn dispatch(mode: &str) -> Option<fn(&str) -> String> {
    match mode {
        "c18-parse" => Some(parse),
        "c18-alias-tokens" => Some(alias_tokens),
        "c18-resolve" => Some(resolve),
        _ => None,
    }
}

pub fn special(_mode: &str) -> bool {
    false
}
