//! C16 — attribution tracker: real `update_attributions` and friends, in-process.
//! Texts are byte lists (valid UTF-8), positions are byte offsets, authors are code-point lists.
//!   attr  = (start end AUTHOR ts)          lattr = (start end AUTHOR OVERRODE)   OVERRODE = () | (AUTHOR)
//!   facts = (segs (op BYTES)...) (subst (a b)...) (moves (del ins s0 s1 t0 t1)...)     op: 0 Equal 1 Delete 2 Insert
use crate::sexp::{self, byte_list, cps, sym, Sx};
use git_ai::authorship::attribution_tracker::{
    attributions_to_line_attributions, line_attributions_to_attributions, Attribution,
    AttributionTracker, LineAttribution, VerifMove, VerifSegment,
};
use std::panic::{catch_unwind, AssertUnwindSafe};

fn text_of(x: &Sx) -> String {
    String::from_utf8(x.bytes()).expect("case text must be valid UTF-8")
}

fn attr_of(x: &Sx) -> Attribution {
    let l = x.list();
    Attribution::new(l[0].num() as usize, l[1].num() as usize, l[2].string(), l[3].num() as u128)
}

fn attrs_of(x: &Sx) -> Vec<Attribution> {
    x.list().iter().map(attr_of).collect()
}

fn show_attr(a: &Attribution) -> Sx {
    Sx::L(vec![Sx::N(a.start as u64), Sx::N(a.end as u64), cps(&a.author_id), Sx::N(a.ts as u64)])
}

fn show_attrs(v: &[Attribution]) -> Sx {
    Sx::L(v.iter().map(show_attr).collect())
}

fn lattr_of(x: &Sx) -> LineAttribution {
    let l = x.list();
    let ov = l[3].list();
    LineAttribution::new(
        l[0].num() as u32,
        l[1].num() as u32,
        l[2].string(),
        if ov.is_empty() { None } else { Some(ov[0].string()) },
    )
}

fn show_lattrs(v: &[LineAttribution]) -> Sx {
    Sx::L(v
        .iter()
        .map(|a| {
            Sx::L(vec![
                Sx::N(a.start_line as u64),
                Sx::N(a.end_line as u64),
                cps(&a.author_id),
                match &a.overrode {
                    None => Sx::L(vec![]),
                    Some(o) => Sx::L(vec![cps(o)]),
                },
            ])
        })
        .collect())
}

fn tagged(tag: &str, body: Option<Sx>) -> String {
    match body {
        Some(b) => Sx::L(vec![sym(tag), b]).show(),
        None => Sx::L(vec![sym(tag), sym("panic")]).show(),
    }
}

fn segs_of(x: &Sx) -> Vec<VerifSegment> {
    x.list()[1..]
        .iter()
        .map(|s| {
            let l = s.list();
            (l[0].num() as u8, l[1].bytes())
        })
        .collect()
}

fn subst_of(x: &Sx) -> Vec<(usize, usize)> {
    x.list()[1..]
        .iter()
        .map(|s| {
            let l = s.list();
            (l[0].num() as usize, l[1].num() as usize)
        })
        .collect()
}

fn moves_of(x: &Sx) -> Vec<VerifMove> {
    x.list()[1..]
        .iter()
        .map(|s| {
            let l: Vec<usize> = s.list().iter().map(|v| v.num() as usize).collect();
            (l[0], l[1], (l[2], l[3]), (l[4], l[5]))
        })
        .collect()
}

fn show_facts(segs: &[VerifSegment], subst: &[(usize, usize)], moves: &[VerifMove]) -> String {
    let mut s = vec![sym("segs")];
    for (op, d) in segs {
        s.push(Sx::L(vec![Sx::N(*op as u64), byte_list(d)]));
    }
    let mut u = vec![sym("subst")];
    for (a, b) in subst {
        u.push(Sx::L(vec![Sx::N(*a as u64), Sx::N(*b as u64)]));
    }
    let mut m = vec![sym("moves")];
    for (d, i, s0, t0) in moves {
        m.push(Sx::L(
            [*d, *i, s0.0, s0.1, t0.0, t0.1].iter().map(|v| Sx::N(*v as u64)).collect(),
        ));
    }
    format!("{} {} {}", Sx::L(s).show(), Sx::L(u).show(), Sx::L(m).show())
}

/// in: OLD NEW ATTRS AUTHOR TS
/// out: (segs..) (subst..) (moves..) (tr ATTRS|panic) (out ATTRS|panic|err) (lines LATTRS|panic) (lines0 LATTRS|panic)
pub fn update(body: &str) -> String {
    let xs = sexp::parse_many(body).expect("sexp");
    let old = text_of(&xs[0]);
    let new = text_of(&xs[1]);
    let attrs = attrs_of(&xs[2]);
    let author = xs[3].string();
    let ts = xs[4].num() as u128;
    let tracker = AttributionTracker::new();
    let facts = catch_unwind(AssertUnwindSafe(|| tracker.verif_facts(&old, &new)));
    let (facts_s, tr) = match &facts {
        Ok(Ok((segs, subst, moves))) => {
            let sorted = AttributionTracker::verif_sort_for_transform(&attrs);
            let tr = catch_unwind(AssertUnwindSafe(|| {
                tracker.verif_transform(segs, &sorted, &author, moves, ts, subst)
            }))
            .ok();
            (show_facts(segs, subst, moves), tr)
        }
        Ok(Err(_)) => ("(segs err) (subst) (moves)".to_string(), None),
        Err(_) => ("(segs panic) (subst) (moves)".to_string(), None),
    };
    let out = catch_unwind(AssertUnwindSafe(|| {
        tracker.update_attributions(&old, &new, &attrs, &author, ts)
    }));
    let (out_s, lines) = match &out {
        Ok(Ok(v)) => {
            let l = catch_unwind(AssertUnwindSafe(|| attributions_to_line_attributions(v, &new))).ok();
            (tagged("out", Some(show_attrs(v))), l)
        }
        Ok(Err(_)) => (Sx::L(vec![sym("out"), sym("err")]).show(), None),
        Err(_) => (tagged("out", None), None),
    };
    let lines0 = catch_unwind(AssertUnwindSafe(|| attributions_to_line_attributions(&attrs, &old))).ok();
    format!(
        "{} {} {} {} {}",
        facts_s,
        tagged("tr", tr.as_deref().map(show_attrs)),
        out_s,
        tagged("lines", lines.as_deref().map(show_lattrs)),
        tagged("lines0", lines0.as_deref().map(show_lattrs)),
    )
}

/// in: SEGS SUBST MOVES ATTRS AUTHOR TS      out: (tr ATTRS|panic) (mg ATTRS|panic)
/// the bookkeeping on given (possibly malformed) facts
pub fn transform(body: &str) -> String {
    let xs = sexp::parse_many(body).expect("sexp");
    let segs = segs_of(&xs[0]);
    let subst = subst_of(&xs[1]);
    let moves = moves_of(&xs[2]);
    let attrs = attrs_of(&xs[3]);
    let author = xs[4].string();
    let ts = xs[5].num() as u128;
    let tracker = AttributionTracker::new();
    let sorted = AttributionTracker::verif_sort_for_transform(&attrs);
    let tr = catch_unwind(AssertUnwindSafe(|| {
        tracker.verif_transform(&segs, &sorted, &author, &moves, ts, &subst)
    }))
    .ok();
    let mg = tr
        .clone()
        .and_then(|v| catch_unwind(AssertUnwindSafe(|| tracker.verif_merge(v))).ok());
    format!(
        "{} {}",
        tagged("tr", tr.as_deref().map(show_attrs)),
        tagged("mg", mg.as_deref().map(show_attrs))
    )
}

/// in: CONTENT ATTRS      out: (lines LATTRS|panic)
pub fn lines(body: &str) -> String {
    let xs = sexp::parse_many(body).expect("sexp");
    let content = text_of(&xs[0]);
    let attrs = attrs_of(&xs[1]);
    let l = catch_unwind(AssertUnwindSafe(|| attributions_to_line_attributions(&attrs, &content))).ok();
    tagged("lines", l.as_deref().map(show_lattrs))
}

/// in: CONTENT LATTRS TS      out: (chars ATTRS|panic) (lines LATTRS|panic)
pub fn roundtrip(body: &str) -> String {
    let xs = sexp::parse_many(body).expect("sexp");
    let content = text_of(&xs[0]);
    let la: Vec<LineAttribution> = xs[1].list().iter().map(lattr_of).collect();
    let ts = xs[2].num() as u128;
    let chars = catch_unwind(AssertUnwindSafe(|| line_attributions_to_attributions(&la, &content, ts))).ok();
    let back = chars
        .clone()
        .and_then(|v| catch_unwind(AssertUnwindSafe(|| attributions_to_line_attributions(&v, &content))).ok());
    format!(
        "{} {}",
        tagged("chars", chars.as_deref().map(show_attrs)),
        tagged("lines", back.as_deref().map(show_lattrs))
    )
}

/// in: CONTENT ATTRS AUTHOR TS      out: (fill ATTRS|panic)
pub fn fill(body: &str) -> String {
    let xs = sexp::parse_many(body).expect("sexp");
    let content = text_of(&xs[0]);
    let attrs = attrs_of(&xs[1]);
    let author = xs[2].string();
    let ts = xs[3].num() as u128;
    let tracker = AttributionTracker::new();
    let v = catch_unwind(AssertUnwindSafe(|| {
        tracker.attribute_unattributed_ranges(&content, &attrs, &author, ts)
    }))
    .ok();
    tagged("fill", v.as_deref().map(show_attrs))
}

/// in: BYTES      out: (ok CPS (b0 b1 ...)) | err     b_i = is_char_boundary(i) for i in 0..=len+1
pub fn utf8(body: &str) -> String {
    let xs = sexp::parse_many(body).expect("sexp");
    let bytes = xs[0].bytes();
    match std::str::from_utf8(&bytes) {
        Ok(s) => {
            let bs: Vec<Sx> = (0..=s.len() + 1).map(|i| Sx::N(s.is_char_boundary(i) as u64)).collect();
            Sx::L(vec![sym("ok"), cps(s), Sx::L(bs)]).show()
        }
        Err(_) => "err".to_string(),
    }
}

pub fn dispatch(mode: &str) -> Option<fn(&str) -> String> {
    match mode {
        "c16-update" => Some(update),
        "c16-transform" => Some(transform),
        "c16-lines" => Some(lines),
        "c16-rt" => Some(roundtrip),
        "c16-fill" => Some(fill),
        "c16-utf8" => Some(utf8),
        _ => None,
    }
}

pub fn special(_mode: &str) -> bool {
    false
}
