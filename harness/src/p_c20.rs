//! C20 tie: Repository::path_is_in_workdir called in-process on real repositories prepared by the
//! system-level engine (sibling directories whose names are string prefixes of each other, `..`,
//! trailing slashes, symbolic links, paths that do not exist).
use crate::sexp;
use git_ai::git::repository::{Repository, find_repository_in_path};
use std::cell::RefCell;
use std::collections::HashMap;
use std::path::Path;

thread_local! {
    static REPOS: RefCell<HashMap<String, Option<Repository>>> = RefCell::new(HashMap::new());
}

/// in: REPO_DIR PATH (both strings as code point lists)    out: 1 | 0 | norepo
fn inwd(body: &str) -> String {
    let xs = sexp::parse_many(body).expect("sexp");
    let dir = xs[0].string();
    let path = xs[1].string();
    REPOS.with(|cell| {
        let mut map = cell.borrow_mut();
        let repo = map
            .entry(dir.clone())
            .or_insert_with(|| find_repository_in_path(&dir).ok());
        match repo {
            Some(r) => {
                if r.path_is_in_workdir(Path::new(&path)) {
                    "1".to_string()
                } else {
                    "0".to_string()
                }
            }
            None => "norepo".to_string(),
        }
    })
}

pub fn dispatch(mode: &str) -> Option<fn(&str) -> String> {
    match mode {
        "c20-inwd" => Some(inwd),
        _ => None,
    }
}

pub fn special(_mode: &str) -> bool {
    false
}
