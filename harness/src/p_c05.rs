//! C05 — notes tree layout, attestation builder, base_commit_sha remap: the real functions
//! called in-process (private ones through the guarded `verif_*` shims).
use crate::sexp::{self, Sx, byte_list, cps, sym};
use git_ai::authorship::attribution_tracker::LineAttribution;
use git_ai::authorship::authorship_log::LineRange;
use git_ai::authorship::authorship_log_serialization::{AuthorshipLog, FileAttestation};
use git_ai::authorship::rebase_authorship::{
    verif_build_file_attestation_from_line_attributions, verif_remap_note_content_for_target_commit,
    verif_try_remap_base_commit_sha_field, verif_upsert_file_attestation,
};
use git_ai::authorship::virtual_attribution::VirtualAttributions;
use git_ai::git::refs::{
    note_blob_oids_for_commits, notes_add_batch, verif_notes_path_for_object,
    verif_parse_batch_check_blob_oid,
};
use git_ai::git::repository::find_repository_in_path;
use std::collections::HashMap;

fn utf8(x: &Sx) -> Option<String> {
    String::from_utf8(x.bytes()).ok()
}

/// in: OID(bytes, valid UTF-8)   out: (ok BYTES) | panic (caught by main) | badutf8
fn path_for_object(body: &str) -> String {
    let x = sexp::parse(body).expect("sexp");
    let Some(oid) = utf8(&x) else { return "badutf8".into() };
    let p = verif_notes_path_for_object(&oid);
    Sx::L(vec![sym("ok"), byte_list(p.as_bytes())]).show()
}

/// in: LINE(code points)   out: (some CPS) | none
fn batch_check(body: &str) -> String {
    let x = sexp::parse(body).expect("sexp");
    match verif_parse_batch_check_blob_oid(&x.string()) {
        Some(o) => Sx::L(vec![sym("some"), cps(&o)]).show(),
        None => "none".into(),
    }
}

fn line_attrs(x: &Sx) -> Vec<LineAttribution> {
    x.list()
        .iter()
        .map(|a| {
            let l = a.list();
            LineAttribution::new(l[0].num() as u32, l[1].num() as u32, l[2].string(), None)
        })
        .collect()
}

fn show_range(r: &LineRange) -> Sx {
    match r {
        LineRange::Single(l) => Sx::L(vec![sym("s"), Sx::N(*l as u64)]),
        LineRange::Range(a, b) => Sx::L(vec![sym("r"), Sx::N(*a as u64), Sx::N(*b as u64)]),
    }
}

/// entries sorted by author (the Rust side iterates a HashMap)
fn show_fatt(f: &FileAttestation) -> Sx {
    let mut es: Vec<(String, Sx)> = f
        .entries
        .iter()
        .map(|e| {
            let mut v = vec![cps(&e.hash)];
            v.extend(e.line_ranges.iter().map(show_range));
            (e.hash.clone(), Sx::L(v))
        })
        .collect();
    es.sort_by(|a, b| a.0.chars().map(|c| c as u32).collect::<Vec<_>>().cmp(&b.0.chars().map(|c| c as u32).collect::<Vec<_>>()));
    let mut v = vec![cps(&f.file_path)];
    v.extend(es.into_iter().map(|e| e.1));
    Sx::L(v)
}

/// in: PATH ((S E AUTHOR)...)   out: none | FATT
fn build_att(body: &str) -> String {
    let xs = sexp::parse_many(body).expect("sexp");
    match verif_build_file_attestation_from_line_attributions(&xs[0].string(), &line_attrs(&xs[1])) {
        None => "none".into(),
        Some(f) => show_fatt(&f).show(),
    }
}

fn scratch_repo() -> String {
    use std::sync::OnceLock;
    static R: OnceLock<String> = OnceLock::new();
    R.get_or_init(|| {
        let d = std::env::temp_dir().join(format!("vharness-c05-{}", std::process::id()));
        let _ = std::fs::create_dir_all(&d);
        let _ = std::process::Command::new("git").arg("init").arg("-q").arg(&d).output();
        d.to_string_lossy().to_string()
    })
    .clone()
}

/// in: ((PATH ((S E AUTHOR)...))...)   out: (FATT...) sorted by path — VirtualAttributions::to_authorship_log
fn va_log(body: &str) -> String {
    let x = sexp::parse(body).expect("sexp");
    let repo = find_repository_in_path(&scratch_repo()).expect("repo");
    let mut attrs = HashMap::new();
    for f in x.list() {
        let l = f.list();
        attrs.insert(l[0].string(), (Vec::new(), line_attrs(&l[1])));
    }
    let va = VirtualAttributions::new(repo, "base".to_string(), attrs, HashMap::new(), 0);
    let log = va.to_authorship_log().expect("to_authorship_log");
    let mut fs: Vec<&FileAttestation> = log.attestations.iter().collect();
    fs.sort_by(|a, b| a.file_path.chars().map(|c| c as u32).collect::<Vec<_>>().cmp(&b.file_path.chars().map(|c| c as u32).collect::<Vec<_>>()));
    let base_ok = log.metadata.base_commit_sha == "base";
    format!("{} {}", Sx::L(fs.into_iter().map(show_fatt).collect()).show(), base_ok as u8)
}

/// in: (PATH...) PATH ((S E AUTHOR)...) EXISTS   out: (PATH...) after upsert, and the new FATT or none
fn upsert(body: &str) -> String {
    let xs = sexp::parse_many(body).expect("sexp");
    let mut log = AuthorshipLog::new();
    for p in xs[0].list() {
        log.attestations.push(FileAttestation::new(p.string()));
    }
    let path = xs[1].string();
    verif_upsert_file_attestation(&mut log, &path, &line_attrs(&xs[2]), xs[3].num() != 0);
    let names = Sx::L(log.attestations.iter().map(|a| cps(&a.file_path)).collect());
    let last = match log.attestations.last() {
        Some(f) if f.file_path == path && !f.entries.is_empty() => show_fatt(f).show(),
        _ => "none".into(),
    };
    format!("{} {}", names.show(), last)
}

/// in: NOTE(bytes, valid UTF-8) TARGET(bytes)   out: (some BYTES)|none  then  (full BYTES)
fn remap(body: &str) -> String {
    let xs = sexp::parse_many(body).expect("sexp");
    let (Some(note), Some(target)) = (utf8(&xs[0]), utf8(&xs[1])) else { return "badutf8".into() };
    let a = match verif_try_remap_base_commit_sha_field(&note, &target) {
        Some(s) => Sx::L(vec![sym("some"), byte_list(s.as_bytes())]).show(),
        None => "none".into(),
    };
    let full = verif_remap_note_content_for_target_commit(&note, &target);
    format!("{} {}", a, Sx::L(vec![sym("full"), byte_list(full.as_bytes())]).show())
}

/// in: REPO_PATH ((SHA CONTENT)...)   out: ok | err     — notes_add_batch on a prepared repository
fn batch_write(body: &str) -> String {
    let xs = sexp::parse_many(body).expect("sexp");
    let repo = match find_repository_in_path(&xs[0].string()) {
        Ok(r) => r,
        Err(_) => return "norepo".into(),
    };
    let entries: Vec<(String, String)> = xs[1]
        .list()
        .iter()
        .map(|e| {
            let l = e.list();
            (l[0].string(), l[1].string())
        })
        .collect();
    match notes_add_batch(&repo, &entries) {
        Ok(()) => "ok".into(),
        Err(_) => "err".into(),
    }
}

/// in: REPO_PATH (SHA...)   out: ((SHA BLOB_OID)...) sorted — note_blob_oids_for_commits
fn lookup(body: &str) -> String {
    let xs = sexp::parse_many(body).expect("sexp");
    let repo = match find_repository_in_path(&xs[0].string()) {
        Ok(r) => r,
        Err(_) => return "norepo".into(),
    };
    let shas: Vec<String> = xs[1].list().iter().map(|s| s.string()).collect();
    match note_blob_oids_for_commits(&repo, &shas) {
        Ok(m) => {
            let mut v: Vec<(String, String)> = m.into_iter().collect();
            v.sort();
            Sx::L(v.into_iter().map(|(a, b)| Sx::L(vec![cps(&a), cps(&b)])).collect()).show()
        }
        Err(_) => "err".into(),
    }
}

fn va_of(x: &Sx) -> VirtualAttributions {
    use git_ai::authorship::attribution_tracker::{Attribution, attributions_to_line_attributions};
    let repo = find_repository_in_path(&scratch_repo()).expect("repo");
    let mut attrs = HashMap::new();
    let mut contents = HashMap::new();
    for f in x.list() {
        let l = f.list();
        let (path, content) = (l[0].string(), l[1].string());
        let chars: Vec<Attribution> = l[2]
            .list()
            .iter()
            .map(|a| {
                let al = a.list();
                Attribution::new(al[0].num() as usize, al[1].num() as usize, al[2].string(), al[3].num() as u128)
            })
            .collect();
        let lines = attributions_to_line_attributions(&chars, &content);
        attrs.insert(path.clone(), (chars, lines));
        contents.insert(path, content);
    }
    VirtualAttributions::new(repo, "base".to_string(), attrs, contents, 1)
}

/// in: PRIMARY SECONDARY FINAL  (VA = ((PATH CONTENT ((START END AUTHOR TS)...))...), FINAL = ((PATH CONTENT)...))
/// out: ((PATH LINES_OF_ITS_CONTENT ((S E AUTHOR)...))...) of merge_attributions_favoring_first, sorted by path
fn merge_vas(body: &str) -> String {
    use git_ai::authorship::virtual_attribution::merge_attributions_favoring_first;
    let xs = sexp::parse_many(body).expect("sexp");
    let (primary, secondary) = (va_of(&xs[0]), va_of(&xs[1]));
    let mut fin = HashMap::new();
    for f in xs[2].list() {
        let l = f.list();
        fin.insert(l[0].string(), l[1].string());
    }
    let merged = match merge_attributions_favoring_first(primary, secondary, fin) {
        Ok(m) => m,
        Err(_) => return "err".into(),
    };
    let mut files = merged.files();
    files.sort_by(|a, b| a.chars().map(|c| c as u32).collect::<Vec<_>>().cmp(&b.chars().map(|c| c as u32).collect::<Vec<_>>()));
    let mut out = Vec::new();
    for f in files {
        let lc = merged.get_file_content(&f).map(|c| c.lines().count() as u64);
        let mut las: Vec<(u32, u32, String)> = merged
            .get_line_attributions(&f)
            .map(|v| v.iter().map(|l| (l.start_line, l.end_line, l.author_id.clone())).collect())
            .unwrap_or_default();
        las.sort();
        out.push(Sx::L(vec![
            cps(&f),
            match lc { Some(n) => Sx::N(n), None => sym("nocontent") },
            Sx::L(las.into_iter().map(|(a, b, h)| Sx::L(vec![Sx::N(a as u64), Sx::N(b as u64), cps(&h)])).collect()),
        ]));
    }
    Sx::L(out).show()
}

pub fn dispatch(mode: &str) -> Option<fn(&str) -> String> {
    match mode {
        "c05-path" => Some(path_for_object),
        "c05-batchcheck" => Some(batch_check),
        "c05-att" => Some(build_att),
        "c05-valog" => Some(va_log),
        "c05-upsert" => Some(upsert),
        "c05-remap" => Some(remap),
        "c05-batch-write" => Some(batch_write),
        "c05-lookup" => Some(lookup),
        "c05-merge" => Some(merge_vas),
        _ => None,
    }
}

pub fn special(_mode: &str) -> bool {
    false
}
