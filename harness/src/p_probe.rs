//! Probes used while investigating findings (kept: they are cheap and document what was looked at).
use crate::sexp::{self, Sx, cps};
use git_ai::authorship::virtual_attribution::VirtualAttributions;
use git_ai::git::repository::find_repository_in_path;

/// in: REPO BASE_COMMIT (PATHSPEC...) START_COMMIT-or-()   out: ((FILE (S E AUTHOR)...)...)
fn va_base(body: &str) -> String {
    let xs = sexp::parse_many(body).expect("sexp");
    let repo = find_repository_in_path(&xs[0].string()).expect("repo");
    let paths: Vec<String> = xs[2].list().iter().map(|p| p.string()).collect();
    let start = if xs[3].list().is_empty() { None } else { Some(xs[3].string()) };
    let va = smol::block_on(async {
        VirtualAttributions::new_for_base_commit(repo, xs[1].string(), &paths, start).await
    });
    let va = match va {
        Ok(v) => v,
        Err(e) => return format!("err {:?}", e).replace('\n', " "),
    };
    let mut files = va.files();
    files.sort();
    let mut out = Vec::new();
    for f in files {
        let l = va.get_line_attributions(&f).cloned().unwrap_or_default();
        out.push(Sx::L(vec![
            cps(&f),
            Sx::L(l.iter()
                .map(|a| Sx::L(vec![Sx::N(a.start_line as u64), Sx::N(a.end_line as u64), cps(&a.author_id)]))
                .collect()),
        ]));
    }
    Sx::L(out).show()
}

pub fn dispatch(mode: &str) -> Option<fn(&str) -> String> {
    match mode {
        "probe-va-base" => Some(va_base),
        _ => None,
    }
}

pub fn special(_mode: &str) -> bool {
    false
}
