//! C09 — blame pipeline (src/commands/blame.rs) called in-process.
//!
//! The line-porcelain parser is inline in `Repository::blame_hunks_for_ranges`, right after the
//! `git blame --line-porcelain` invocation.  To run it on arbitrary text the harness process is
//! started with a HOME whose `.git-ai/config.json` names a wrapper script as `git_path`: the script
//! prints the file named by `C09_BLAME_FILE` for a `blame` subcommand when that variable is set and
//! non-empty, and execs the real git for everything else (notes show, grep, rev-parse, ...).
//! So the parser, `populate_ai_human_authors`, `overlay_ai_authorship`, `get_line_attribution` and
//! the note lookup of src/git/refs.rs all run unmodified, against the notes of a real repository.
use crate::sexp::{self, Sx, cps, sym};
use git_ai::commands::blame::{BlameAnalysisResult, GitAiBlameOptions, parse_blame_args};
use git_ai::git::repository::find_repository_in_path;

fn opt_str(x: &Option<String>) -> Sx {
    match x {
        Some(s) => cps(s),
        None => sym("none"),
    }
}

fn show_analysis(a: &BlameAnalysisResult) -> String {
    let hunks: Vec<Sx> = a
        .blame_hunks
        .iter()
        .map(|h| {
            Sx::L(vec![
                Sx::N(h.range.0 as u64),
                Sx::N(h.range.1 as u64),
                Sx::N(h.orig_range.0 as u64),
                Sx::N(h.orig_range.1 as u64),
                cps(&h.commit_sha),
                cps(&h.original_author),
                Sx::N(h.is_boundary as u64),
                opt_str(&h.ai_human_author),
            ])
        })
        .collect();
    let mut la: Vec<(u32, String)> = a.line_authors.iter().map(|(k, v)| (*k, v.clone())).collect();
    la.sort();
    let mut prs: Vec<String> = a.prompt_records.keys().cloned().collect();
    prs.sort();
    let mut h = vec![sym("hunks")];
    h.extend(hunks);
    let mut l = vec![sym("lines")];
    l.extend(la.into_iter().map(|(k, v)| Sx::L(vec![Sx::N(k as u64), cps(&v)])));
    let mut p = vec![sym("prompts")];
    p.extend(prs.iter().map(|s| cps(s)));
    format!("{} {} {}", Sx::L(h).show(), Sx::L(l).show(), Sx::L(p).show())
}

fn set_blame_file(v: &str) {
    // single-threaded harness: the variable is read by the wrapper script of the child process
    unsafe { std::env::set_var("C09_BLAME_FILE", v) };
}

/// in: REPO PATH (use_hash human_as_human mark_unknown split) TEXT
/// out: (hunks ...) (lines ...) (prompts ...) | err | norepo
fn pipe(body: &str) -> String {
    let xs = sexp::parse_many(body).expect("sexp");
    let dir = xs[0].string();
    let repo = match find_repository_in_path(&dir) {
        Ok(r) => r,
        Err(_) => return "norepo".into(),
    };
    let path = xs[1].string();
    let o = xs[2].list();
    let text = xs[3].string();
    let f = std::env::temp_dir().join(format!("c09-blame-{}.txt", std::process::id()));
    std::fs::write(&f, text.as_bytes()).expect("write blame file");
    set_blame_file(&f.to_string_lossy());
    let mut opts = GitAiBlameOptions::default();
    opts.use_prompt_hashes_as_names = o[0].num() == 1;
    opts.return_human_authors_as_human = o[1].num() == 1;
    opts.mark_unknown = o[2].num() == 1;
    opts.split_hunks_by_ai_author = o[3].num() == 1;
    opts.long_rev = true; // no abbreviation lookups: they do not touch the modelled fields
    opts.no_output = true;
    let r = std::panic::catch_unwind(std::panic::AssertUnwindSafe(|| repo.blame_analysis(&path, &opts)));
    set_blame_file("");
    let _ = std::fs::remove_file(&f);
    match r {
        Ok(Ok(a)) => show_analysis(&a),
        Ok(Err(_)) => "err".into(),
        Err(_) => "panic".into(),
    }
}

/// Real git, options that the command line does not expose.
/// in: REPO PATH (use_hash ignore_whitespace) NEWEST|none ((A B)...) (IGNORE_REV...) IGNORE_REVS_FILE|none OLDEST|none
/// out: as `pipe`
fn real(body: &str) -> String {
    let xs = sexp::parse_many(body).expect("sexp");
    let dir = xs[0].string();
    let repo = match find_repository_in_path(&dir) {
        Ok(r) => r,
        Err(_) => return "norepo".into(),
    };
    set_blame_file("");
    let path = xs[1].string();
    let o = xs[2].list();
    let mut opts = GitAiBlameOptions::default();
    opts.use_prompt_hashes_as_names = o[0].num() == 1;
    opts.ignore_whitespace = o[1].num() == 1;
    opts.long_rev = true;
    opts.no_output = true;
    if let Sx::L(_) = &xs[3] {
        opts.newest_commit = Some(xs[3].string());
    }
    for r in xs[4].list() {
        let l = r.list();
        opts.line_ranges.push((l[0].num() as u32, l[1].num() as u32));
    }
    for r in xs[5].list() {
        opts.ignore_revs.push(r.string());
    }
    if let Sx::L(_) = &xs[6] {
        opts.ignore_revs_file = Some(xs[6].string());
    }
    if xs.len() > 7 {
        if let Sx::L(_) = &xs[7] {
            opts.oldest_commit = Some(xs[7].string());
        }
    }
    match repo.blame_analysis(&path, &opts) {
        Ok(a) => show_analysis(&a),
        Err(_) => "err".into(),
    }
}

/// in: ARG (the value given to -L)    out: (A B) | none     through the real argument parser
fn range(body: &str) -> String {
    let xs = sexp::parse_many(body).expect("sexp");
    let arg = xs[0].string();
    match parse_blame_args(&["-L".to_string(), arg, "f".to_string()]) {
        Ok((_, o)) if o.line_ranges.len() == 1 => {
            Sx::L(vec![Sx::N(o.line_ranges[0].0 as u64), Sx::N(o.line_ranges[0].1 as u64)]).show()
        }
        _ => "none".into(),
    }
}

/// in: NAME (as printed on a porcelain `filename` line)    out: the path utils::unescape_git_path gives | panic
fn unquote(body: &str) -> String {
    let xs = sexp::parse_many(body).expect("sexp");
    cps(&git_ai::utils::unescape_git_path(&xs[0].string())).show()
}

pub fn dispatch(mode: &str) -> Option<fn(&str) -> String> {
    match mode {
        "c09-unquote" => Some(unquote),
        "c09-pipe" => Some(pipe),
        "c09-real" => Some(real),
        "c09-range" => Some(range),
        _ => None,
    }
}

pub fn special(_mode: &str) -> bool {
    false
}
