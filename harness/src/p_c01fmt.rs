//! C01 (diff text protocol): the real `git diff -U0` parsers of src/git/repository.rs, in-process.
use crate::sexp::{self, Sx, cps, sym};
use git_ai::git::repository::{
    verif_normalize_diff_path_token, verif_parse_diff_added_lines,
    verif_parse_diff_added_lines_with_insertions, verif_parse_hunk_header,
};
use std::collections::HashMap;

fn show_map(m: &HashMap<String, Vec<u32>>) -> Sx {
    let mut keys: Vec<&String> = m.keys().collect();
    keys.sort();
    Sx::L(keys
        .iter()
        .map(|k| {
            Sx::L(vec![cps(k), Sx::L(m[*k].iter().map(|n| Sx::N(*n as u64)).collect())])
        })
        .collect())
}

/// in: TEXT (code points)    out: (ok MAP) | err
pub fn parse(body: &str) -> String {
    let text = sexp::parse(body).expect("sexp").string();
    match verif_parse_diff_added_lines(&text) {
        Ok(m) => Sx::L(vec![sym("ok"), show_map(&m)]).show(),
        Err(_) => "err".into(),
    }
}

/// in: TEXT (code points)    out: (ok MAP MAP) | err
pub fn parse_ins(body: &str) -> String {
    let text = sexp::parse(body).expect("sexp").string();
    match verif_parse_diff_added_lines_with_insertions(&text) {
        Ok((a, i)) => Sx::L(vec![sym("ok"), show_map(&a), show_map(&i)]).show(),
        Err(_) => "err".into(),
    }
}

/// in: BYTES (raw git stdout)    out: (ok MAP MAP) | err      -- String::from_utf8_lossy first, as the callers do
pub fn parse_bytes(body: &str) -> String {
    let bytes = sexp::parse(body).expect("sexp").bytes();
    let text = String::from_utf8_lossy(&bytes);
    let a1 = match verif_parse_diff_added_lines(&text) {
        Ok(m) => m,
        Err(_) => return "err".into(),
    };
    match verif_parse_diff_added_lines_with_insertions(&text) {
        Ok((a, i)) => {
            if a != a1 {
                return "differ".into();
            }
            Sx::L(vec![sym("ok"), show_map(&a), show_map(&i)]).show()
        }
        Err(_) => "err".into(),
    }
}

/// in: LINE (code points)    out: none | (some (N...) 0|1)
pub fn hunk(body: &str) -> String {
    let line = sexp::parse(body).expect("sexp").string();
    match verif_parse_hunk_header(&line) {
        None => "none".into(),
        Some((v, p)) => Sx::L(vec![
            sym("some"),
            Sx::L(v.iter().map(|n| Sx::N(*n as u64)).collect()),
            Sx::N(p as u64),
        ])
        .show(),
    }
}

/// in: TOKEN (code points)    out: (ok CPS)          -- normalize_diff_path_token (trim_end, unescape, strip prefix)
pub fn normalize(body: &str) -> String {
    let t = sexp::parse(body).expect("sexp").string();
    Sx::L(vec![sym("ok"), cps(&verif_normalize_diff_path_token(&t))]).show()
}

/// in: PATH (code points)    out: (ok CPS)          -- utils::unescape_git_path
pub fn unescape(body: &str) -> String {
    let t = sexp::parse(body).expect("sexp").string();
    Sx::L(vec![sym("ok"), cps(&git_ai::utils::unescape_git_path(&t))]).show()
}

/// in: BYTES    out: (ok CPS)          -- String::from_utf8_lossy
pub fn lossy(body: &str) -> String {
    let b = sexp::parse(body).expect("sexp").bytes();
    Sx::L(vec![sym("ok"), cps(&String::from_utf8_lossy(&b))]).show()
}

pub fn dispatch(mode: &str) -> Option<fn(&str) -> String> {
    match mode {
        "c01-parse" => Some(parse),
        "c01-parse-ins" => Some(parse_ins),
        "c01-parse-bytes" => Some(parse_bytes),
        "c01-hunk" => Some(hunk),
        "c01-normalize" => Some(normalize),
        "c01-unescape" => Some(unescape),
        "c01-lossy" => Some(lossy),
        _ => None,
    }
}

pub fn special(_mode: &str) -> bool {
    false
}
