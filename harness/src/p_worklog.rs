//! Working-log reader (C01/C03/C14 tie): VirtualAttributions::from_just_working_log,
//! attributions_to_line_attributions, write_initial_attributions — called in-process on real
//! repositories prepared by the system-level engine.
use crate::sexp::{self, Sx, cps, sym};
use git_ai::authorship::attribution_tracker::{
    Attribution, LineAttribution, attributions_to_line_attributions,
};
use git_ai::authorship::virtual_attribution::VirtualAttributions;
use git_ai::git::repository::find_repository_in_path;
use std::collections::HashMap;

fn show_lines(v: &[LineAttribution]) -> Sx {
    let mut items: Vec<(u32, u32, String)> = v
        .iter()
        .map(|l| (l.start_line, l.end_line, l.author_id.clone()))
        .collect();
    items.sort();
    Sx::L(items
        .into_iter()
        .map(|(a, b, au)| Sx::L(vec![Sx::N(a as u64), Sx::N(b as u64), cps(&au)]))
        .collect())
}

/// in: REPO_PATH BASE_SHA    out: ((FILE (S E AUTHOR)...) ...) sorted by file; files with no lines omitted
fn va(body: &str) -> String {
    let xs = sexp::parse_many(body).expect("sexp");
    let repo = match find_repository_in_path(&xs[0].string()) {
        Ok(r) => r,
        Err(_) => return "norepo".into(),
    };
    let va = match VirtualAttributions::from_just_working_log(repo, xs[1].string(), None) {
        Ok(v) => v,
        Err(_) => return "err".into(),
    };
    let mut files = va.files();
    files.sort();
    let mut out = Vec::new();
    for f in files {
        if let Some(l) = va.get_line_attributions(&f) {
            if !l.is_empty() {
                out.push(Sx::L(vec![cps(&f), show_lines(l)]));
            }
        }
    }
    Sx::L(out).show()
}

/// in: ((S E AUTHOR TS)...) CONTENT   out: ((S E AUTHOR)...)
fn tolines(body: &str) -> String {
    let xs = sexp::parse_many(body).expect("sexp");
    let attrs: Vec<Attribution> = xs[0]
        .list()
        .iter()
        .map(|a| {
            let l = a.list();
            Attribution::new(l[0].num() as usize, l[1].num() as usize, l[2].string(), l[3].num() as u128)
        })
        .collect();
    let content = xs[1].string();
    show_lines(&attributions_to_line_attributions(&attrs, &content)).show()
}

/// in: REPO_PATH BASE_SHA ((FILE (S E AUTHOR)...)...)
/// writes INITIAL through write_initial_attributions, reads it back
/// out: (exists 0|1) ((FILE (S E AUTHOR)...)...)
fn write_initial(body: &str) -> String {
    let xs = sexp::parse_many(body).expect("sexp");
    let repo = match find_repository_in_path(&xs[0].string()) {
        Ok(r) => r,
        Err(_) => return "norepo".into(),
    };
    let wl = repo.storage.working_log_for_base_commit(&xs[1].string());
    let mut m: HashMap<String, Vec<LineAttribution>> = HashMap::new();
    for f in xs[2].list() {
        let fl = f.list();
        let v = fl[1]
            .list()
            .iter()
            .map(|a| {
                let l = a.list();
                LineAttribution::new(l[0].num() as u32, l[1].num() as u32, l[2].string(), None)
            })
            .collect();
        m.insert(fl[0].string(), v);
    }
    if wl.write_initial_attributions(m, HashMap::new()).is_err() {
        return "err".into();
    }
    let exists = wl.initial_file.exists();
    let back = wl.read_initial_attributions();
    let mut files: Vec<_> = back.files.keys().cloned().collect();
    files.sort();
    let out: Vec<Sx> = files
        .iter()
        .map(|f| Sx::L(vec![cps(f), show_lines(&back.files[f])]))
        .collect();
    format!("{} {}", Sx::L(vec![sym("exists"), Sx::N(exists as u64)]).show(), Sx::L(out).show())
}

pub fn dispatch(mode: &str) -> Option<fn(&str) -> String> {
    match mode {
        "wl-va" => Some(va),
        "wl-tolines" => Some(tolines),
        "wl-write-initial" => Some(write_initial),
        _ => None,
    }
}

pub fn special(_mode: &str) -> bool {
    false
}
