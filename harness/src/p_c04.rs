//! C04 — the split of uncommitted AI work at commit time, in-process.
//! No /repo hook is needed: `VirtualAttributions::new_with_prompts` and
//! `to_authorship_log_and_initial_working_log` are public.  Each case builds a real scratch
//! repository (parent commit = P, commit = C, work tree = W for one file of pairwise distinct
//! lines), so the committed / unstaged / pure-insertion hunks are the ones the real
//! `git diff -U0` reports, and then calls the real method.
//! Scratch base directory: env VERIF_C04_SCRATCH (must exist).
use crate::sexp::{self, Sx, cps, sym};
use git_ai::authorship::attribution_tracker::LineAttribution;
use git_ai::authorship::authorship_log::LineRange;
use git_ai::authorship::virtual_attribution::VirtualAttributions;
use git_ai::git::repository::find_repository_in_path;
use std::collections::{BTreeMap, HashMap};
use std::path::Path;
use std::process::Command;
use std::sync::atomic::{AtomicUsize, Ordering};

static COUNTER: AtomicUsize = AtomicUsize::new(0);
const FILE: &str = "f.txt";

fn git(dir: &Path, args: &[&str]) -> String {
    let out = Command::new("/usr/bin/git")
        .args(args)
        .current_dir(dir)
        .output()
        .expect("git runs");
    if !out.status.success() {
        panic!("git {:?} failed: {}", args, String::from_utf8_lossy(&out.stderr));
    }
    String::from_utf8_lossy(&out.stdout).trim().to_string()
}

fn text(ids: &Sx) -> String {
    ids.list().iter().map(|x| format!("line {}\n", x.num())).collect()
}

fn show_range(r: &LineRange) -> Sx {
    match r {
        LineRange::Single(l) => Sx::L(vec![sym("s"), Sx::N(*l as u64)]),
        LineRange::Range(a, b) => Sx::L(vec![sym("r"), Sx::N(*a as u64), Sx::N(*b as u64)]),
    }
}

/// in: P C W ATTRS     out: (note (AUTHOR RANGE...)...) (init (AUTHOR start end)...)
fn split(body: &str) -> String {
    let xs = sexp::parse_many(body).expect("sexp");
    let base = std::env::var("VERIF_C04_SCRATCH").expect("VERIF_C04_SCRATCH");
    let n = COUNTER.fetch_add(1, Ordering::SeqCst);
    let dir = Path::new(&base).join(format!("r{}-{}", std::process::id(), n));
    std::fs::create_dir_all(&dir).unwrap();
    let res = std::panic::catch_unwind(|| run_case(&dir, &xs));
    let _ = std::fs::remove_dir_all(&dir);
    match res {
        Ok(s) => s,
        Err(_) => "panic".to_string(),
    }
}

fn run_case(dir: &Path, xs: &[Sx]) -> String {
    git(dir, &["init", "-q", "."]);
    std::fs::write(dir.join(FILE), text(&xs[0])).unwrap();
    git(dir, &["add", FILE]);
    git(dir, &["commit", "-q", "--allow-empty", "-m", "P"]);
    std::fs::write(dir.join(FILE), text(&xs[1])).unwrap();
    git(dir, &["add", FILE]);
    git(dir, &["commit", "-q", "--allow-empty", "-m", "C"]);
    let w_text = text(&xs[2]);
    std::fs::write(dir.join(FILE), &w_text).unwrap();
    let commit = git(dir, &["rev-parse", "HEAD"]);
    let parent = git(dir, &["rev-parse", "HEAD~1"]);

    let line_attrs: Vec<LineAttribution> = xs[3]
        .list()
        .iter()
        .map(|a| {
            let l = a.list();
            LineAttribution::new(l[0].num() as u32, l[1].num() as u32, l[2].string(), None)
        })
        .collect();
    let path = dir.to_string_lossy().to_string();
    let repo = find_repository_in_path(&path).expect("repo");
    let repo2 = find_repository_in_path(&path).expect("repo");
    let mut attributions = HashMap::new();
    attributions.insert(FILE.to_string(), (Vec::new(), line_attrs));
    let mut contents = HashMap::new();
    contents.insert(FILE.to_string(), w_text);
    let va = VirtualAttributions::new_with_prompts(repo, parent.clone(), attributions, contents, BTreeMap::new(), 0);
    let (log, initial) = match va.to_authorship_log_and_initial_working_log(&repo2, &parent, &commit, None) {
        Ok(x) => x,
        Err(e) => return format!("err {:?}", e).replace(['\n', '\t'], " "),
    };

    let mut note: Vec<(String, Vec<Sx>)> = Vec::new();
    for f in &log.attestations {
        if f.file_path != FILE {
            return format!("unexpected-file {}", f.file_path);
        }
        for e in &f.entries {
            note.push((e.hash.clone(), e.line_ranges.iter().map(show_range).collect()));
        }
    }
    note.sort_by(|a, b| a.0.cmp(&b.0));
    let mut ini: Vec<(String, u32, u32)> = Vec::new();
    for (p, las) in &initial.files {
        if p != FILE {
            return format!("unexpected-file {}", p);
        }
        for la in las {
            ini.push((la.author_id.clone(), la.start_line, la.end_line));
        }
    }
    ini.sort();
    let mut nv = vec![sym("note")];
    for (a, rs) in note {
        let mut e = vec![cps(&a)];
        e.extend(rs);
        nv.push(Sx::L(e));
    }
    let mut iv = vec![sym("init")];
    for (a, s, e) in ini {
        iv.push(Sx::L(vec![cps(&a), Sx::N(s as u64), Sx::N(e as u64)]));
    }
    format!("{} {}", Sx::L(nv).show(), Sx::L(iv).show())
}

/// in: ATTRS    out: (note (AUTHOR RANGE...)...)   — VirtualAttributions::to_authorship_log for one file
fn to_log(body: &str) -> String {
    let xs = sexp::parse_many(body).expect("sexp");
    let base = std::env::var("VERIF_C04_SCRATCH").expect("VERIF_C04_SCRATCH");
    let dir = Path::new(&base).join(format!("log{}", std::process::id()));
    if !dir.join(".git").exists() {
        std::fs::create_dir_all(&dir).unwrap();
        git(&dir, &["init", "-q", "."]);
    }
    let line_attrs: Vec<LineAttribution> = xs[0]
        .list()
        .iter()
        .map(|a| {
            let l = a.list();
            LineAttribution::new(l[0].num() as u32, l[1].num() as u32, l[2].string(), None)
        })
        .collect();
    let repo = find_repository_in_path(&dir.to_string_lossy()).expect("repo");
    let mut attributions = HashMap::new();
    attributions.insert(FILE.to_string(), (Vec::new(), line_attrs));
    let va = VirtualAttributions::new_with_prompts(repo, String::new(), attributions, HashMap::new(), BTreeMap::new(), 0);
    let log = va.to_authorship_log().expect("log");
    let mut note: Vec<(String, Vec<Sx>)> = Vec::new();
    for f in &log.attestations {
        for e in &f.entries {
            note.push((e.hash.clone(), e.line_ranges.iter().map(show_range).collect()));
        }
    }
    note.sort_by(|a, b| a.0.cmp(&b.0));
    let mut nv = vec![sym("note")];
    for (a, rs) in note {
        let mut e = vec![cps(&a)];
        e.extend(rs);
        nv.push(Sx::L(e));
    }
    Sx::L(nv).show()
}

/// in: LINES   out: RANGES EXPANDED   — LineRange::compress_lines / expand
fn compress(body: &str) -> String {
    let xs = sexp::parse_many(body).expect("sexp");
    let lines: Vec<u32> = xs[0].list().iter().map(|x| x.num() as u32).collect();
    let rs = LineRange::compress_lines(&lines);
    let ex: Vec<Sx> = rs.iter().flat_map(|r| r.expand()).map(|l| Sx::N(l as u64)).collect();
    format!("{} {}", Sx::L(rs.iter().map(show_range).collect()).show(), Sx::L(ex).show())
}

pub fn dispatch(mode: &str) -> Option<fn(&str) -> String> {
    match mode {
        "c04-split" => Some(split),
        "c04-log" => Some(to_log),
        "c04-compress" => Some(compress),
        _ => None,
    }
}

pub fn special(_mode: &str) -> bool {
    false
}
