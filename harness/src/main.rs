//! vharness — in-process correspondence harness.
//! usage: vharness <mode>      stdin: `id<TAB>sexp...` per line      stdout: `id<TAB>result`
mod c17;
mod sexp;

use std::io::{self, BufRead, Write};

fn main() {
    std::panic::set_hook(Box::new(|_| {}));
    let mode = std::env::args().nth(1).unwrap_or_default();
    let f: fn(&str) -> String = match mode.as_str() {
        "c17-rt" => c17::roundtrip,
        "c17-de" => c17::deserialize,
        "c17-md" => c17::md_parse,
        "ws-table" => {
            // exhaustive table of char::is_whitespace over all scalar values
            let out = io::stdout();
            let mut out = out.lock();
            for c in 0u32..0x110000 {
                if let Some(ch) = char::from_u32(c) {
                    if ch.is_whitespace() {
                        writeln!(out, "{}", c).unwrap();
                    }
                }
            }
            return;
        }
        _ => {
            eprintln!("unknown mode {mode}");
            std::process::exit(2);
        }
    };
    let stdin = io::stdin();
    let out = io::stdout();
    let mut out = out.lock();
    for line in stdin.lock().lines() {
        let line = line.unwrap();
        let Some((id, body)) = line.split_once('\t') else { continue };
        let body = body.to_string();
        let res = std::panic::catch_unwind(move || f(&body)).unwrap_or_else(|_| "panic".to_string());
        writeln!(out, "{}\t{}", id, res).unwrap();
    }
}
