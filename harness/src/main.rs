//! vharness — in-process correspondence harness.
//! usage: vharness <mode>      stdin: `id<TAB>sexp...` per line      stdout: `id<TAB>result`
//! Property modules are src/p_*.rs (picked up by build.rs); each exports
//! `dispatch(mode) -> Option<fn(&str) -> String>` and `special(mode) -> bool`.
//! A panic inside a case function is caught and reported as the result `panic`.
pub mod sexp;
include!(concat!(env!("OUT_DIR"), "/mods.rs"));

use std::io::{self, BufRead, Write};

fn main() {
    std::panic::set_hook(Box::new(|_| {}));
    let mode = std::env::args().nth(1).unwrap_or_default();
    if special(&mode) {
        return;
    }
    let Some(f) = dispatch(&mode) else {
        eprintln!("unknown mode {mode}");
        std::process::exit(2);
    };
    let stdin = io::stdin();
    let out = io::stdout();
    let mut out = out.lock();
    for line in stdin.lock().lines() {
        let line = line.unwrap();
        let Some((id, body)) = line.split_once('\t') else { continue };
        let body = body.to_string();
        let res = std::panic::catch_unwind(move || f(&body)).unwrap_or_else(|_| "panic".to_string());
        writeln!(out, "{}\t{}", id, res).unwrap();
    }
}
